#!/venv/bin/python
"""Evaluate one independently seeded change:  tools/seedeval.py <dir with patch.diff/demo.py/meta.json> [--checks "C01 C03"]

1. scratch worktree of /repo HEAD (outside /repo and /verif); demo on the unmodified tree (must exit 0);
2. apply patch.diff; repository test-suite (must equal the baseline: 1655 passed, 13 failed);
3. demo on the patched tree (must exit non-zero);
4. ./check <ID> quick with BEHAVE_SRC=<patched tree> for the property's own check (+ optional others);
prints a JSON summary; the worktree is removed afterwards.
"""
import argparse
import json
import os
import re
import shutil
import subprocess
import sys
import tempfile

ROOT = os.path.dirname(os.path.dirname(os.path.abspath(__file__)))


def run(cmd, **kw):
    p = subprocess.run(cmd, stdout=subprocess.PIPE, stderr=subprocess.STDOUT, **kw)
    return p.returncode, p.stdout.decode("utf-8", "replace")


def main():
    ap = argparse.ArgumentParser()
    ap.add_argument("dir")
    ap.add_argument("--checks", default="")
    ap.add_argument("--tier", default="quick")
    ap.add_argument("--seed", default="0")
    args = ap.parse_args()
    d = os.path.abspath(args.dir)
    meta = json.load(open(os.path.join(d, "meta.json")))
    prop = meta["property"]
    scratch = tempfile.mkdtemp(prefix="vfseed-")
    src = os.path.join(scratch, "repo")
    out = {"dir": d, "property": prop}
    try:
        subprocess.check_call(["git", "-C", "/repo", "worktree", "add", "--detach", "-f", src],
                              stdout=subprocess.DEVNULL, stderr=subprocess.DEVNULL)
        env = dict(os.environ, PYTHONPATH=src, PYTHONDONTWRITEBYTECODE="1")
        rc, text = run(["/venv/bin/python", os.path.join(d, "demo.py")], env=env, cwd=scratch, timeout=600)
        out["demo_unmodified"] = rc
        rc, text = run(["git", "-C", src, "apply", os.path.join(d, "patch.diff")])
        out["patch_applies"] = rc == 0
        if rc != 0:
            out["patch_error"] = text[-300:]
            print(json.dumps(out, indent=1))
            return 1
        rc, text = run(["/venv/bin/python", "-m", "pytest", "-q", "-p", "no:cacheprovider", "tests"], env=env, cwd=src,
                       timeout=1800)
        m = re.search(r"(\d+) failed, (\d+) passed", text)
        out["tests"] = m.group(0) if m else text.strip().splitlines()[-1:]
        out["tests_baseline"] = bool(m and m.group(1) == "13" and m.group(2) == "1655")
        rc, text = run(["/venv/bin/python", os.path.join(d, "demo.py")], env=env, cwd=scratch, timeout=600)
        out["demo_patched"] = rc
        out["demo_patched_tail"] = text.strip().splitlines()[-3:]
        checks = [prop] + [c for c in args.checks.split() if c != prop]
        out["checks"] = {}
        for cid in checks:
            env2 = dict(os.environ, BEHAVE_SRC=src, VERIF_SEED=args.seed)
            rc, text = run([os.path.join(ROOT, "check"), cid, args.tier], env=env2, timeout=3600)
            clauses = re.findall(r"violated clause (\S+) \((\d+) cases\)", text)
            out["checks"][cid] = {"exit": rc, "clauses": clauses[:8],
                                  "first": [l[:300] for l in text.splitlines() if l.startswith("violated clause")][:2]}
        print(json.dumps(out, indent=1))
        return 0
    finally:
        subprocess.run(["git", "-C", "/repo", "worktree", "remove", "--force", src],
                       stdout=subprocess.DEVNULL, stderr=subprocess.DEVNULL)
        shutil.rmtree(scratch, ignore_errors=True)
        subprocess.run(["git", "-C", "/repo", "worktree", "prune"], stdout=subprocess.DEVNULL)


if __name__ == "__main__":
    sys.exit(main())
