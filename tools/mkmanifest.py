#!/venv/bin/python
"""Regenerates /verif/MANIFEST.json from the table below (keeps it schema-valid)."""
import json
import os

ROOT = os.path.dirname(os.path.dirname(os.path.abspath(__file__)))

BASELINE_OFF = ("cd /repo && env -u BEHAVE_VERIF /venv/bin/python -m pytest -ra -q -p no:cacheprovider "
                "--timeout=900 --continue-on-collection-errors")

CHECKS = {
    "C01": dict(
        level="exploration", design="DESIGN.md 5/C01",
        technique="property-based testing: generated programs run by the real runner vs. an independent "
                  "reference interpreter (Hypothesis) + exhaustive small-core enumeration + metamorphic relations + CLI exit-code sample",
        text="Generated-input search: ~42k exhaustively enumerated small programs x flag combinations plus thousands of "
             "random feature trees (rules, backgrounds, outlines, tags, tag expressions, one raising hook or cleanup) are run "
             "through the real parser and ModelRunner; the verdict is compared with an own reference interpreter, with "
             "metamorphic variants (add passing / deselected element, permute siblings) and, on a sample, the exit code of "
             "`python -m behave`. Exploration is the right level: the verdict is a disjunction over unbounded trees; no finite proof "
             "object exists for the Python implementation, but every disjunct and container level is exercised many times.",
        note="Trusted: vf/refmodel.py (reference semantics from the statement and docs), the fixed step library, Hypothesis. "
             "Hooks raising KeyboardInterrupt / calling context.abort() are checked with a verdict-only oracle (the run fails). "
             "Since round 9 one program in sixteen is blown up in one dimension (10-13 rows / scenarios / steps / rules / features / tags, "
             "three- and four-digit line numbers, long names). Not covered: SystemExit from user code; user code that mutates the model "
             "beyond the documented run-time calls (skip, mark_skipped, feature.skip, use_background, continue_after_failed_step)."),
    "C02": dict(
        level="exploration", design="DESIGN.md 5/C02",
        technique="property-based testing: exhaustive enumeration of all outcome sequences up to length 4 x flags + random longer "
                  "sequences / programs (Hypothesis), real runner vs. reference interpreter (call log, per-step status)",
        text="Every outcome sequence over the 8 outcomes up to length 4 (x @wip x dry-run x sync/async, spread over 0-2 inherited "
             "background levels, plain scenario or outline row) is executed by the real runner (37k cases), longer random sequences, "
             "continue_after_failed_step and repeated runs of the same model objects are sampled; the step-function call log and every "
             "step status are compared with the reference interpreter. Exhaustive below the bound, sampled above: exploration.",
        note="Trusted: vf/refmodel.py, the fixed step library. Dry-run status of defined steps only required to be of untested class."),
    "C03": dict(
        level="exploration", design="DESIGN.md 5/C03",
        technique="property-based testing: relational oracle over actual child statuses on generated runs, complete enumeration of "
                  "the Status enum and of all child-status tuples <= 4 on real model objects, re-run / auto-retry histories",
        text="The documented roll-up table is encoded as a relation (set of admissible statuses given the children's statuses, own hook "
             "or cleanup failure) and checked on every scenario/outline/rule/feature of thousands of generated runs (incl. --stop, abort, "
             "hook faults, raising cleanups, dry-run), on ALL child-status tuples up to length 4 set on real model objects (22k, complete), "
             "on the complete Status enum (classification) and on re-run histories compared with a fresh model.",
        note="Trusted: the relation in vf/props/c03.py (from the statement + docs/appendix.status.rst). Open: error vs failed precedence. "
             "Known findings F2, F25 (documented behave behaviour that contradicts the literal statement) are reported, not suppressed by loosening."),
    "C09": dict(
        level="exploration", design="DESIGN.md 5/C09",
        technique="property-based testing: generated tagged feature trees + tag expressions (both dialects) run by the real runner; "
                  "own tag-expression evaluator over own+inherited tags as oracle",
        text="Random trees with tags on every level (feature, rule, scenario, outline with <col> tags, examples) and random v1/v2 "
             "expressions with negation and wildcards are run; the set of executed scenarios (step calls, scenario hooks) and the "
             "skipped status of everything else is compared with an own evaluation of the expression over inherited tags.",
        note="Trusted: vf/tagref.py evaluator, vf/refmodel.py selection. Open: hooks of containers entered only by own tags."),
    "C12": dict(
        level="fault_enumeration", design="DESIGN.md 5/C12",
        technique="fault injection enumeration: every hook call of the fault-free run (and all pairs for short logs) raises; oracle = "
                  "predicted hook log + independent nesting-grammar recogniser + containment vs. the fault-free baseline",
        text="For each generated program the fault-free hook log H is recorded and EVERY index of H is used as injection point "
             "(Exception / AssertionError), plus all pairs when |H| <= 14: ~13k (program, fault) cases per quick run. Checked: nothing "
             "escapes run(), verdict failed, exact hook log and grammar, hook-error attribution, body suppression, containment.",
        note="Trusted: vf/refmodel.py hook skeleton, recogniser in vf/props/c12.py. Faults are Exception/AssertionError only."),
    "C14": dict(
        level="exploration", design="DESIGN.md 5/C14",
        technique="property-based testing: generated runs with the real summary reporter (all 5 formats) and SummaryCollector; "
                  "oracle = independent census of the model after the run + numbers parsed back from the printed lines",
        text="Thousands of generated runs (rules, outlines, backgrounds, --stop/abort remainders, hook faults, dry-run) with the "
             "summary reporter active in all five output formats and the collector: per kind (feature, rule, scenario, step) the "
             "reporter tables, the collector counts and the numbers parsed from each printed format must equal an independent "
             "census of the model; the failing/errored listings must equal the failed / error-class scenarios.",
        note="Trusted: census walker and line parsers in vf/props/c14.py. SummaryReporterV2 (unused alias, crashes in print_summary) "
             "is not exercised; the collector is driven directly."),
    "C13": dict(
        level="fault_enumeration", design="DESIGN.md 5/C13",
        technique="stateful model-based testing (Hypothesis RuleBasedStateMachine over a real Context vs. a list-of-dicts model, "
                  "any subset of cleanups raising) + complete enumeration of short histories + generated real runs with probes",
        text="Operation histories (push/pop, set/get/delete/contains, root attributes, use_or_*, add_cleanup plain/args/layer=, "
             "re-added functions, generator/plain/failing/raising/composite fixtures, mode switches) are applied to a real Context and "
             "to a reference model, comparing visibility of every name, the cleanup/fixture log, re-raising and frame removal after "
             "every operation; all histories up to length 4 (5 in thorough) over a reduced alphabet are enumerated completely. Real "
             "runs probe attribute visibility at every hook/step, cleanup order/position/exactly-once, error status of the owning "
             "element, and restoration of text/table after execute_steps.",
        note="Trusted: the list-of-dicts model in vf/props/c13.py and vf/refmodel.py. The root scope is never popped (as in real runs)."),
    "C04": dict(
        level="exploration", design="DESIGN.md 5/C04",
        technique="property-based testing: abstract feature trees rendered to Gherkin with recorded facts (round-trip render -> parse), "
                  "complete enumeration of 80 languages x every keyword alias, partial entry points, describe_* round trip",
        text="A renderer turns generated abstract trees into Gherkin text and records what a faithful parser must report (kinds, "
             "nesting, names, keywords as written, tags with lines, descriptions, 1-based lines of every element, table row and "
             "doc-string, step types with And/But/* inheritance, unescaped cells, de-indented doc-strings); the parsed model is "
             "compared field by field for random documents with drawn indentation/blank/comment noise, for one document per "
             "(language, keyword kind, alias) -- complete over the keyword table -- via parse_feature, parse_file, parse_steps, "
             "parse_scenario, parse_rule, parse_tags.",
        note="Trusted: vf/program.py renderer (soundness rules in DESIGN.md 2.1). '*' as very first step is read as given; languages "
             "without a '*' keyword (en-tx, sl) get And instead."),
    "C05": dict(
        level="fault_enumeration", design="DESIGN.md 5/C05",
        technique="fuzzing + fault injection: line soups, all single-line mutations of valid documents, catalogue of grammar faults "
                  "injected at every applicable position with the expected error line, atheris coverage-guided campaign (thorough)",
        text="For every generated text and all five entry points the call must return or raise ParserError with 1 <= line <= number "
             "of lines; root causes are bucketed by (entry point, exception type, innermost behave function). A fault catalogue (second "
             "Feature / free text / Examples / second Background after steps, And/But without predecessor, wrong cell count, malformed "
             "tag, doc-string/table before a step) is injected at every position of a valid document where it is a fault and must be "
             "reported at the injected line. Thorough adds an in-process atheris campaign (empty and seeded corpus, keyword dictionary).",
        note="Trusted: position computation from renderer facts. Termination only via watchdog. language= argument always a known code."),
    "C06": dict(
        level="exploration", design="DESIGN.md 5/C06",
        technique="property-based testing: generated outlines rendered and parsed, own simultaneous-substitution expander as "
                  "reference model; stateful table-API edit histories; mutation-independence (aliasing) probes",
        text="Outlines with placeholders in name / step names / doc-strings / step tables / tags, several examples blocks with "
             "different column orders, annotation schemas; the scenarios built by behave are compared with an own expander (count, "
             "order, names, tags + examples tags, steps, tables, row line); the template must stay byte-identical, mutating one "
             "generated scenario must not leak into siblings or the template, and after add_row/add_column/ensure_column_exists/"
             "remove_column the rebuilt expansion must equal the oracle on the edited table.",
        note="Trusted: expander in vf/props/c06.py. Values never contain '<' '>'; tag-position values are tag-safe or blanks."),
    "C10": dict(
        level="exploration", design="DESIGN.md 5/C10",
        technique="property-based testing with complete per-document enumeration: every line number (and all pairs for short "
                  "documents) as file:LINE through parse_features vs. an entity table from the renderer; @listfile / multi-file lists; "
                  "name patterns vs. any(re.search)",
        text="For each generated document every line from 0 to last+3 is used as location (complete), all pairs of lines for "
             "documents <= 12 lines, drawn triples, lists over 2-3 files directly and via @listfile in cwd or a sub-directory with "
             "comments / blanks / indented entries; the set of scenarios left un-skipped must equal the selection of the nearest "
             "entity starting at or above the line (union over a group), except @setup/@teardown; a sample is executed; "
             "FileLocationParser and --name selection are checked against own reference implementations.",
        note="Trusted: entity table from vf/program.py facts. Lines above the Feature line not compared."),
    "C15": dict(
        level="exploration", design="DESIGN.md 5/C15",
        technique="property-based testing: generated runs with random subsets/orders of the built-in formatters between two recording "
                  "formatters; oracles = event-grammar recogniser, stream predicted by the reference model, JSON vs. model, "
                  "JsonParser round trip, plain/progress reports vs. processed steps",
        text="Two recording formatters (first and last) must see the same event stream; it must be accepted by an independent "
             "recogniser of the event grammar (the k-th result refers to the k-th announced step) and equal the stream predicted by "
             "the reference model. The JSON report must parse and mirror features / shown scenarios / steps / tables / doc-strings / "
             "statuses of the model, each status on its own element; reading it back (JsonParser, json_parser.parse on a file) must "
             "reproduce structure and statuses; plain and progress2/3 must show every processed step once with its final status.",
        note="Trusted: vf/refmodel.py (processed steps), recogniser and report parsers in vf/props/c15.py. Unprocessed steps carry no "
             "status in JSON and are not compared after read-back. pretty/progress/null/rerun are exercised for crashes and stream "
             "agreement only."),
    "C11": dict(
        level="exploration", design="DESIGN.md 5/C11",
        technique="property-based testing: abstract patterns rendered for every matcher kind with instances known by construction; "
                  "stateful registration histories (Hypothesis RuleBasedStateMachine) replayed against an own reference matcher / "
                  "registry model; generated step modules loaded with load_step_modules",
        text="Patterns are generated abstractly (literals + typed fields / regex groups) and rendered for parse, cfparse, re, re0 and "
             "cucumber expressions; step texts are derived so that the expected binding, winner, argument values, names and spans are "
             "known by construction. Registration histories (register / use_step_matcher / register_type / lookup) run against a fresh "
             "StepRegistry and a reference model (type list first, then generic, first registration wins; AmbiguousStep; same "
             "definition ignored); generated step modules check the matcher reset between modules.",
        note="Trusted: reference matcher (anchored case-sensitive regex built from the abstract pattern) in vf/props/c11.py. "
             "Arguments compared exactly only where greedy and lazy reference matches agree."),
    "C19": dict(
        level="exploration", design="DESIGN.md 5/C19",
        technique="exhaustive enumeration of tag multisets (size <= 4) x current-value assignments x provider kinds + random "
                  "configurations (Hypothesis); own reference implementation of the documented per-category logic as oracle",
        text="All tag multisets of size 0-4 over 5 prefixes x 3 categories (one unknown) x 3 values mixed with ordinary and look-alike "
             "tags are enumerated (complete up to size 3 with all assignments, size 4 with rotating assignments; thorough: everything), "
             "for dict / ValueObject / lazy / ActiveTagValueProvider / composite providers and CompositeTagMatcher, number and bool "
             "value objects, custom prefixes and separators; should_exclude_with / should_run_with are compared with an own "
             "implementation of the documented formula (~1.4M evaluations per quick run).",
        note="Trusted: reference logic and own tag-schema parser in vf/props/c19.py. Separators are taken literally (assumption)."),
    "C20": dict(
        level="exploration", design="DESIGN.md 5/C20",
        technique="property-based testing: scratch cwd/HOME with generated config files x generated command lines, Configuration built "
                  "in-process and compared with an own precedence model from docs/behave.rst; complete enumerations for booleans, -D "
                  "strings and getters",
        text="Per case 0-2 configuration files (behave.ini/.behaverc/setup.cfg/tox.ini/pyproject.toml, in cwd and/or HOME) assign a "
             "subset of the documented options and a command line assigns another subset; every attribute of Configuration is compared "
             "with: command line, else file, else documented default; append options, paths/outfiles resolution, documented couplings "
             "and userdata (-D parsing, precedence, typed getters) are modelled; complete: every boolean x file x command line x "
             "{ini,toml}, every -D value over a small alphabet up to length 3, the getter table.",
        note="Trusted: option model in vf/props/c20.py derived from docs/behave.rst. Open: merging of several files, contradictory "
             "forcing options, undocumented defaults."),
    "C16": dict(
        level="exploration", design="DESIGN.md 5/C16",
        technique="property-based testing / fuzzing of report content: generated runs through the real Runner with --junit, names, "
                  "messages and captured output drawn from a hostile alphabet; oracle = independent XML parser (expat) + counters "
                  "recounted from the document + model statuses",
        text="Every TESTS-*.xml written for generated runs (hostile characters in feature / scenario / step names, assertion and "
             "exception messages, captured stdout / stderr; hook faults, raising cleanups, --stop, dry-run; show_skipped and junit "
             "userdata switches) must parse with expat, contain exactly the feature's scenarios (rows included, skipped iff shown) "
             "with their final status, have tests/failures/errors/skipped equal to the recounted entries, and carry a failure/error "
             "entry naming the responsible step or hook for every failed or errored scenario; the reporter must never raise.",
        note="Trusted: expat. Names compared literally only when legal XML text. ']]&gt;' inside CDATA is read as ']]>' (documented work-around)."),
    "C17": dict(
        level="exploration", design="DESIGN.md 5/C17",
        technique="property-based testing of two-run histories (run -> rerun file -> run @file) on scratch projects with the real "
                  "Runner; oracle = model statuses after run 1 and selection observed in run 2",
        text="Run 1 with `-f rerun -o FILE` (FILE in cwd or a sub-directory, optionally a stale FILE) over 1-3 generated feature files "
             "with passing / failing / erroring / deselected scenarios and outline rows; the non-comment lines of FILE must be "
             "exactly the locations of the scenarios with failed or error-class final status in run order, FILE must be absent "
             "when there are none; run 2 with @FILE must start exactly those scenarios and skip all others.",
        note="Trusted: model statuses after run 1. Hook faults are not re-injected in run 2."),
    "C18": dict(
        level="exploration", design="DESIGN.md 5/C18",
        technique="property-based testing with sentinel streams: exhaustive outcome sequences <= 3 x all 8 capture-switch combinations "
                  "+ random programs (step-hook faults, nested steps, logging level/filter), unique output markers per scenario/step/"
                  "kind as oracle, CLI sample on real file descriptors",
        text="Steps and step hooks write unique markers to stdout, stderr and logging; sentinel objects stand in for the real "
             "sys.stdout / sys.stderr. Checked: no marker of a captured kind reaches a sentinel; a failing step's report contains all "
             "markers of its scenario up to that step and none of other scenarios; output of passing scenarios is not shown; at every "
             "formatter.result callback and scenario hook (also after failing, raising, interrupting steps) sys.stdout/stderr are the "
             "sentinels; root logger level/handlers equal before a scenario and after its teardown; uncaptured kinds pass through in order.",
        note="Trusted: marker bookkeeping in vf/props/c18.py, vf/refmodel.py (which steps run). Writes bypassing sys.stdout are not seen."),
    "C07": dict(
        level="exploration", design="DESIGN.md 5/C07",
        technique="exhaustive enumeration of expression trees (<= 7 nodes) x renderings x complete truth tables over an 8-tag universe "
                  "+ random larger trees (Hypothesis); own AST evaluator / glob matcher as oracle; print-reparse round trip; "
                  "{config.tags} substitution through real Configuration objects",
        text="Every expression tree up to the size bound over literal and wildcard operands, in every rendering (with/without @, "
             "redundant parentheses, extra blanks, list-of-terms form), is parsed by behave and evaluated on ALL 256 subsets of the tag "
             "universe (complete truth table, ~18M evaluations per quick run) against an own evaluator; str() and to_string() must "
             "re-parse to the same table; the {config.tags} placeholder must equal substitution of the configured formula.",
        note="Trusted: vf/tagref.py (AST evaluator, glob matcher, renderers). Escaped operands are a separate low-weight class."),
    "C08": dict(
        level="exploration", design="DESIGN.md 5/C08",
        technique="exhaustive enumeration of small CNF formulas x all decorations x protocols x complete truth tables + random CNF / v2 / "
                  "mixed texts (Hypothesis); own CNF and v2 evaluators as oracle",
        text="All old-style formulas with 1-2 literals in every decoration (-, ~, @, :limit, list and string form, explicit / current / "
             "configured protocol) and random formulas with up to 3 groups x 3 alternatives are evaluated on all 128 tag subsets under "
             "V1 and AUTO_DETECT; new-style renderings must keep their v2 meaning under AUTO_DETECT; texts mixing old negation prefixes "
             "with new operators must raise TagExpressionError.",
        note="Trusted: own CNF semantics from the docs. Texts that are well-formed in both dialects with different meanings are excluded "
             "by construction and counted. Known finding F11 (single bare tag:N)."),
}

PENDING_REASON = "not yet claimed in this revision: the check for this property is still under construction (see DESIGN.md 5)"


def main():
    props = [json.loads(l) for l in open(os.path.join(ROOT, "properties.jsonl"))]
    checks = []
    na = []
    for p in props:
        pid = p["id"]
        c = CHECKS.get(pid)
        if c is None:
            na.append({"property_id": pid, "reason": PENDING_REASON})
            continue
        checks.append({
            "property_id": pid,
            "quick_cmd": "./check %s quick" % pid,
            "thorough_cmd": "./check %s thorough" % pid,
            "evidence_file": "evidence/%s.json" % pid,
            "replay_cmd_template": "./check %s --replay {path}" % pid,
            "engine": "vf",
            "level_claimed": {"category": c["level"], "text": c["text"], "design_ref": c["design"]},
            "level_note": c["note"],
            "technique": c["technique"],
        })
    manifest = {
        "version": 1,
        "setup_cmd": "/venv/bin/python -c 'import hypothesis' 2>/dev/null || /venv/bin/pip install --no-index "
                     "--find-links /opt/veriftools/wheels hypothesis; "
                     "/venv/bin/pip install --no-index --find-links /opt/veriftools/wheels --target /verif/.deps atheris "
                     ">/dev/null 2>&1 || true",
        "hooks": {
            "guard": "BEHAVE_VERIF",
            "enable": "no source hooks are needed: ./check exports BEHAVE_VERIF=1 and imports behave from /repo's working tree (BEHAVE_SRC)",
            "baseline_off_cmd": BASELINE_OFF,
            "source_commits": [],
            "add_only": True,
        },
        "engines": [{"name": "vf", "path": "vf/", "serves_properties": sorted(CHECKS),
                     "kind_free_text": "Hypothesis-driven property-based testing / exhaustive enumeration / stateful "
                                       "machines / atheris fuzzing against the real behave objects, own reference models as oracles"}],
        "checks": checks,
        "not_applicable": na,
        "notes": "All checks: ./check <ID> quick|thorough; exit 0 held / 1 VIOLATION / 2 harness error or inconclusive. "
                 "VERIF_SEED selects the seed (default 0). Known findings: known_findings.json.",
    }
    with open(os.path.join(ROOT, "MANIFEST.json"), "w") as f:
        json.dump(manifest, f, indent=1)
        f.write("\n")


if __name__ == "__main__":
    main()
