#!/venv/bin/python
"""Regenerates /verif/MANIFEST.json from the table below (keeps it schema-valid)."""
import json
import os

ROOT = os.path.dirname(os.path.dirname(os.path.abspath(__file__)))

BASELINE_OFF = ("cd /repo && env -u BEHAVE_VERIF /venv/bin/python -m pytest -ra -q -p no:cacheprovider "
                "--timeout=900 --continue-on-collection-errors")

CHECKS = {
    "C01": dict(
        level="exploration", design="DESIGN.md 5/C01",
        technique="property-based testing: generated programs run by the real runner vs. an independent "
                  "reference interpreter (Hypothesis) + exhaustive small-core enumeration + metamorphic relations + CLI exit-code sample",
        text="Generated-input search: ~42k exhaustively enumerated small programs x flag combinations plus thousands of "
             "random feature trees (rules, backgrounds, outlines, tags, tag expressions, one raising hook or cleanup) are run "
             "through the real parser and ModelRunner; the verdict is compared with an own reference interpreter, with "
             "metamorphic variants (add passing / deselected element, permute siblings) and, on a sample, the exit code of "
             "`python -m behave`. Exploration is the right level: the verdict is a disjunction over unbounded trees; no finite proof "
             "object exists for the Python implementation, but every disjunct and container level is exercised many times.",
        note="Trusted: vf/refmodel.py (reference semantics from the statement and docs), the fixed step library, Hypothesis. "
             "Not covered: hooks raising KeyboardInterrupt/SystemExit; user code that mutates the model."),
}

PENDING_REASON = "not yet claimed in this revision: the check for this property is still under construction (see DESIGN.md 5)"


def main():
    props = [json.loads(l) for l in open(os.path.join(ROOT, "properties.jsonl"))]
    checks = []
    na = []
    for p in props:
        pid = p["id"]
        c = CHECKS.get(pid)
        if c is None:
            na.append({"property_id": pid, "reason": PENDING_REASON})
            continue
        checks.append({
            "property_id": pid,
            "quick_cmd": "./check %s quick" % pid,
            "thorough_cmd": "./check %s thorough" % pid,
            "evidence_file": "evidence/%s.json" % pid,
            "replay_cmd_template": "./check %s --replay {path}" % pid,
            "engine": "vf",
            "level_claimed": {"category": c["level"], "text": c["text"], "design_ref": c["design"]},
            "level_note": c["note"],
            "technique": c["technique"],
        })
    manifest = {
        "version": 1,
        "setup_cmd": "/venv/bin/python -c 'import hypothesis' 2>/dev/null || /venv/bin/pip install --no-index "
                     "--find-links /opt/veriftools/wheels hypothesis; "
                     "/venv/bin/pip install --no-index --find-links /opt/veriftools/wheels --target /verif/.deps atheris "
                     ">/dev/null 2>&1 || true",
        "hooks": {
            "guard": "BEHAVE_VERIF",
            "enable": "no source hooks are needed: ./check exports BEHAVE_VERIF=1 and imports behave from /repo's working tree (BEHAVE_SRC)",
            "baseline_off_cmd": BASELINE_OFF,
            "source_commits": [],
            "add_only": True,
        },
        "engines": [{"name": "vf", "path": "vf/", "serves_properties": sorted(CHECKS),
                     "kind_free_text": "Hypothesis-driven property-based testing / exhaustive enumeration / stateful "
                                       "machines / atheris fuzzing against the real behave objects, own reference models as oracles"}],
        "checks": checks,
        "not_applicable": na,
        "notes": "All checks: ./check <ID> quick|thorough; exit 0 held / 1 VIOLATION / 2 harness error or inconclusive. "
                 "VERIF_SEED selects the seed (default 0). Known findings: known_findings.json.",
    }
    with open(os.path.join(ROOT, "MANIFEST.json"), "w") as f:
        json.dump(manifest, f, indent=1)
        f.write("\n")


if __name__ == "__main__":
    main()
