#!/venv/bin/python
"""Sensitivity self-test helper (development aid, DESIGN.md 2.7).

usage: tools/mutate.py <PROP> <relative file> <old text> <new text> [--tier quick] [--tests]
       tools/mutate.py <PROP> --patch file.diff

Copies /repo/behave to a scratch directory outside /repo and /verif, applies ONE edit,
runs ./check <PROP> against the copy (BEHAVE_SRC) and prints the exit code; with --tests
also runs the repository's pytest suite against the mutant.  The copy is removed afterwards.
"""
import argparse
import os
import shutil
import subprocess
import sys
import tempfile

ROOT = os.path.dirname(os.path.dirname(os.path.abspath(__file__)))


def main():
    ap = argparse.ArgumentParser()
    ap.add_argument("prop")
    ap.add_argument("file", nargs="?")
    ap.add_argument("old", nargs="?")
    ap.add_argument("new", nargs="?")
    ap.add_argument("--patch")
    ap.add_argument("--tier", default="quick")
    ap.add_argument("--tests", action="store_true")
    ap.add_argument("--count", type=int, default=1, help="replace only the n-th occurrence (1-based)")
    ap.add_argument("--seed", default="0")
    args = ap.parse_args()
    scratch = tempfile.mkdtemp(prefix="vfmut-")
    try:
        if args.tests or args.patch:
            subprocess.check_call(["git", "-C", "/repo", "worktree", "add", "--detach", "-f",
                                   os.path.join(scratch, "repo")], stdout=subprocess.DEVNULL,
                                  stderr=subprocess.DEVNULL)
            src = os.path.join(scratch, "repo")
            # carry over uncommitted changes of /repo (the checks run on the working tree)
            diff = subprocess.run(["git", "-C", "/repo", "diff", "HEAD"], stdout=subprocess.PIPE).stdout
            if diff.strip():
                subprocess.run(["git", "-C", src, "apply"], input=diff, check=True)
        else:
            src = os.path.join(scratch, "repo")
            os.makedirs(src)
            shutil.copytree("/repo/behave", os.path.join(src, "behave"),
                            ignore=shutil.ignore_patterns("__pycache__"))
        if args.patch:
            subprocess.check_call(["git", "-C", src, "apply", os.path.abspath(args.patch)])
        else:
            path = os.path.join(src, args.file)
            text = open(path, encoding="utf-8").read()
            n = text.count(args.old)
            if n == 0:
                print("MUTATE: old text not found in %s" % args.file)
                return 3
            idx = -1
            for _ in range(args.count):
                idx = text.index(args.old, idx + 1)
            text = text[:idx] + args.new + text[idx + len(args.old):]
            open(path, "w", encoding="utf-8").write(text)
        env = dict(os.environ, BEHAVE_SRC=src, VERIF_SEED=args.seed)
        rc_tests = None
        if args.tests:
            p = subprocess.run(["/venv/bin/python", "-m", "pytest", "-q", "-x", "-p", "no:cacheprovider",
                                "--deselect", "tests/unit/test_configuration.py", "tests"],
                               cwd=src, env=dict(os.environ, PYTHONPATH=src),
                               stdout=subprocess.PIPE, stderr=subprocess.STDOUT)
            tail = p.stdout.decode("utf-8", "replace").strip().splitlines()[-1:]
            rc_tests = p.returncode
            print("MUTATE: repository tests exit=%d %s" % (p.returncode, tail))
        p = subprocess.run([os.path.join(ROOT, "check"), args.prop, args.tier], env=env,
                           stdout=subprocess.PIPE, stderr=subprocess.STDOUT)
        out = p.stdout.decode("utf-8", "replace")
        lines = out.strip().splitlines()
        for line in lines[-12:]:
            print("   | " + line[:400])
        print("MUTATE: check %s exit=%d%s" % (args.prop, p.returncode,
              "" if rc_tests is None else " tests_exit=%d" % rc_tests))
        return 0 if p.returncode == 1 else 1
    finally:
        if os.path.isdir(os.path.join(scratch, "repo", ".git")) or os.path.isfile(os.path.join(scratch, "repo", ".git")):
            subprocess.run(["git", "-C", "/repo", "worktree", "remove", "--force",
                            os.path.join(scratch, "repo")], stdout=subprocess.DEVNULL,
                           stderr=subprocess.DEVNULL)
        shutil.rmtree(scratch, ignore_errors=True)
        subprocess.run(["git", "-C", "/repo", "worktree", "prune"], stdout=subprocess.DEVNULL)


if __name__ == "__main__":
    sys.exit(main())
