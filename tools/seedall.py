#!/venv/bin/python
"""Re-evaluate every stored seeded change against the CURRENT /repo head and the CURRENT checks.

usage: tools/seedall.py [--lanes 3] [--only C07-3,C11-1] [--out seeded/RESULTS.json]

For each /verif/seeded/<id>/ runs tools/seedeval.py (scratch worktree, patch, repository tests, demo, the
property's quick check plus the checks recorded as `caught_by` in its meta.json) and writes one summary line per
change into the result file: applies / tests at baseline / demo distinguishes / caught by.
Nothing is applied to /repo; every scratch worktree is removed by seedeval.
"""
import argparse
import json
import os
import subprocess
import sys
from concurrent.futures import ThreadPoolExecutor

ROOT = os.path.dirname(os.path.dirname(os.path.abspath(__file__)))


def evaluate(sid):
    d = os.path.join(ROOT, "seeded", sid)
    meta = json.load(open(os.path.join(d, "meta.json")))
    conf = meta.get("confirmed_by_lead") or {}
    extra = [c for c in (conf.get("caught_by") or []) if c != meta["property"]]
    cmd = [os.path.join(ROOT, "tools", "seedeval.py"), d]
    if extra:
        cmd += ["--checks", " ".join(extra)]
    p = subprocess.run(cmd, stdout=subprocess.PIPE, stderr=subprocess.PIPE)
    try:
        ev = json.loads(p.stdout.decode("utf-8", "replace"))
    except ValueError:
        return sid, {"error": p.stderr.decode("utf-8", "replace")[-400:]}
    checks = ev.get("checks", {})
    return sid, {
        "patch_applies": ev.get("patch_applies"),
        "tests_baseline": ev.get("tests_baseline"),
        "demo_unmodified": ev.get("demo_unmodified"),
        "demo_patched": ev.get("demo_patched"),
        "caught_by": sorted(c for c, r in checks.items() if r.get("exit") == 1),
        "check_exit": {c: r.get("exit") for c, r in checks.items()},
        "clauses": {c: [x[0] for x in r.get("clauses", [])][:4] for c, r in checks.items()},
        "patch_error": ev.get("patch_error"),
    }


def main():
    ap = argparse.ArgumentParser()
    ap.add_argument("--lanes", type=int, default=3)
    ap.add_argument("--only", default="")
    ap.add_argument("--out", default=os.path.join(ROOT, "seeded", "RESULTS.json"))
    args = ap.parse_args()
    ids = sorted(x for x in os.listdir(os.path.join(ROOT, "seeded"))
                 if os.path.isfile(os.path.join(ROOT, "seeded", x, "patch.diff")))
    if args.only:
        ids = [x for x in ids if x in args.only.split(",")]
    results = {}
    if os.path.exists(args.out):
        results = json.load(open(args.out))
    with ThreadPoolExecutor(args.lanes) as pool:
        for sid, r in pool.map(evaluate, ids):
            results[sid] = r
            with open(args.out, "w") as f:
                json.dump(results, f, indent=1, sort_keys=True)
                f.write("\n")
            print(sid, json.dumps(r)[:200])
            sys.stdout.flush()


if __name__ == "__main__":
    main()
