#!/bin/bash
# usage: tools/multiseed.sh "C01 C02" "1 2 3"   -> runs quick checks for the seeds, prints one line each
cd "$(dirname "$0")/.." || exit 2
for p in $1; do for s in ${2:-1 2 3 4}; do
  out=$(VERIF_SEED=$s ./check $p ${3:-quick} 2>&1); rc=$?
  echo "$p seed=$s exit=$rc $(echo "$out" | grep -E '^(VIOLATION|HARNESS|INCONCLUSIVE)' | head -3 | tr '\n' ' ')"
  if [ $rc -ne 0 ]; then echo "$out" | grep -E "violated clause|HARNESS" | head -5 | cut -c1-500; fi
done; done
