#!/venv/bin/python
"""Copy independently seeded changes that were evaluated with tools/seedeval.py into /verif/seeded/.

usage: tools/importseeds.py <src prefix, e.g. /tmp/seedb> <eval dir> <round> <first number> [notes.json]

<src prefix>-<ID>-out/<n>/ holds patch.diff, demo.py, meta.json (+ patch.original.diff when the patch had to be
rebased onto a later fix); <eval dir>/<ID>-<n>.json is the seedeval result with the present checks,
<eval dir>/first/<ID>-<n>.json the result before a check was strengthened (if it was missed at first).
notes.json: {"<ID>-<n>": "what was strengthened"}.
"""
import json
import os
import shutil
import sys

ROOT = os.path.dirname(os.path.dirname(os.path.abspath(__file__)))


def main():
    prefix, evaldir, rnd, first = sys.argv[1], sys.argv[2], int(sys.argv[3]), int(sys.argv[4])
    notes = json.load(open(sys.argv[5])) if len(sys.argv) > 5 else {}
    rows = []
    for i in range(1, 21):
        pid = "C%02d" % i
        for n in (1, 2):
            src = "%s-%s-out/%d" % (prefix, pid, n)
            ev_path = os.path.join(evaldir, "%s-%d.json" % (pid, n))
            if not os.path.exists(os.path.join(src, "patch.diff")) or not os.path.exists(ev_path):
                print("skip %s-%d (missing)" % (pid, n))
                continue
            ev = json.load(open(ev_path))
            dest_id = "%s-%d" % (pid, first + n - 1)
            dest = os.path.join(ROOT, "seeded", dest_id)
            os.makedirs(dest, exist_ok=True)
            for name in ("patch.diff", "demo.py", "patch.original.diff"):
                if os.path.exists(os.path.join(src, name)):
                    shutil.copy(os.path.join(src, name), os.path.join(dest, name))
            meta = json.load(open(os.path.join(src, "meta.json")))
            meta["round"] = rnd
            checks = ev.get("checks", {})
            caught_by = [c for c, r in checks.items() if r.get("exit") == 1]
            own = checks.get(pid, {})
            conf = {
                "how": "tools/seedeval.py in a scratch git worktree of /repo HEAD (removed afterwards)",
                "demo_exit_unmodified": ev.get("demo_unmodified"),
                "patch_applies": ev.get("patch_applies"),
                "repository_tests_with_patch": ev.get("tests"),
                "tests_equal_baseline": ev.get("tests_baseline"),
                "demo_exit_patched": ev.get("demo_patched"),
                "check": "./check %s quick (BEHAVE_SRC=<patched tree>)" % " / ".join(sorted(checks)),
                "check_exit": {c: r.get("exit") for c, r in checks.items()},
                "violated_clauses": {c: [x[0] for x in r.get("clauses", [])] for c, r in checks.items()},
                "caught": bool(caught_by),
                "caught_by": caught_by,
            }
            first_path = os.path.join(evaldir, "first", "%s-%d.json" % (pid, n))
            key = "%s-%d" % (pid, n)
            if os.path.exists(first_path) or key in notes:
                conf["missed_at_first"] = notes.get(key, "missed by the check as it was when the change arrived")
            meta["confirmed_by_lead"] = conf
            with open(os.path.join(dest, "meta.json"), "w") as f:
                json.dump(meta, f, indent=1, ensure_ascii=False)
                f.write("\n")
            clauses = [x for c in caught_by for x in conf["violated_clauses"][c]][:3]
            rows.append("| %s | %s | %s | %s |" % (
                dest_id, meta.get("title", "")[:150].replace("|", "/"),
                ("caught" + (" (after strengthening)" if "missed_at_first" in conf else "")
                 + ("" if pid in caught_by or not caught_by else " by " + ",".join(caught_by))) if caught_by else "NOT caught",
                ", ".join(clauses)))
            valid = (ev.get("demo_unmodified") == 0 and ev.get("patch_applies") and ev.get("tests_baseline")
                     and ev.get("demo_patched"))
            if not valid:
                rows[-1] += "  <-- not a confirmed seed (demo/tests)"
            if own.get("exit") not in (0, 1):
                rows[-1] += "  <-- check exit %r" % own.get("exit")
    print("\n".join(rows))


if __name__ == "__main__":
    main()
