# -*- coding: utf-8 -*-
"""Shared oracles over one run of an abstract program: verdict, call log, step statuses,
selection, hook log.  Each function appends violations (with the caller's clause prefix)
to a CaseResult."""
from __future__ import annotations

import copy

from . import refmodel
from .harness import run_program
from .program import normalize, scenario_instances


def resolve_faults(program):
    """Map the raw fault positions (any non-negative int) onto the hook calls of the
    fault-free run; returns a deep copy with resolved positions (faults that cannot be
    placed -- dry-run, no hooks -- are dropped)."""
    prog = copy.deepcopy(program)
    normalize(prog)
    raw_h = prog.pop("hook_faults", None) or []
    raw_c = prog.pop("cleanups", None) or []
    if not raw_h and not raw_c:
        return prog
    base = refmodel.simulate(prog)
    n = len(base.hooks)
    if n == 0:
        return prog
    if raw_h:
        seen = {}
        # a run-time skip only means something in a before_feature / before_rule / before_scenario hook
        eligible = [i for i, h in enumerate(base.hooks) if h[0] in ("before_feature", "before_rule", "before_scenario")]
        for k, exc in raw_h:
            pos = int(k) % n
            if exc in ("skip", "skip_mark") and eligible and pos not in eligible:
                pos = eligible[int(k) % len(eligible)]
            before_sc = [i for i, h in enumerate(base.hooks) if h[0] == "before_scenario"]
            if exc == "no_background" and before_sc and pos not in before_sc:
                pos = before_sc[int(k) % len(before_sc)]
            after_sc = [i for i, h in enumerate(base.hooks) if h[0] == "after_scenario"]
            if exc == "skip_feature" and after_sc and pos not in after_sc:
                pos = after_sc[int(k) % len(after_sc)]
            seen.setdefault(pos, exc)
        prog["hook_faults"] = sorted([k, e] for k, e in seen.items())
    if raw_c:
        prog["cleanups"] = [{"at": int(c["at"]) % n, "raises": bool(c.get("raises"))}
                            for c in raw_c]
    return prog


def instances(program):
    out = []
    for feat in program["features"]:
        for inst in scenario_instances(feat):
            out.append((feat, inst))
    return out


def model_scenario_map(features):
    """name -> behave Scenario object (rows expanded)."""
    result = {}
    for f in features:
        for s in f.walk_scenarios():
            result.setdefault(s.name, []).append(s)
    return result


def ran_object_lookup(run):
    """-> function(scenario of the final model) -> the Scenario object that was handed to
    before_scenario for the same file:line during the run (the object that RAN), else the
    argument itself.  Oracles that describe "the run" read statuses through this, so that a
    model which hands out rebuilt (never executed) row objects afterwards cannot vouch for
    itself."""
    ran = {}
    for obj in getattr(run, "ran_scenarios", None) or ():
        ran[(obj.location.filename, obj.location.line)] = obj

    def lookup(scenario):
        return ran.get((scenario.location.filename, scenario.location.line), scenario)
    return lookup


def typed_texts(program):
    """-> number of typed step texts (program.PHRASE["typed"]) that occur with >= 2 step types."""
    from .harness import _all_step_lists
    types = {}
    for feat in program["features"]:
        for steps in _all_step_lists(feat):
            for s in steps:
                if s.get("o") == "typed":
                    types.setdefault(s["uid"], set()).add(s.get("st"))
    return sum(1 for v in types.values() if len(v) >= 2)


ERROR_CLASS = ("error", "hook_error", "undefined", "pending", "cleanup_error")


def status_floor(ref, program):
    """scenario instance name -> "error" | "failed": what the RUN (reference model: step outcomes, hook and
    cleanup faults) demands of the scenario's final status class, independent of what behave's model says
    afterwards.  Dry-run programs are left out (known finding F25: an untested step before an undefined one)."""
    if (program.get("cfg") or {}).get("dry_run"):
        return {}
    floor = {}
    kinds = set(k for _i, k in program.get("hook_faults") or []) | set(k for _h, _i, k in program.get("hook_faults_named") or [])
    # hooks / cleanups that raise an ordinary exception: the reference model knows which element owns each of them,
    # every OTHER scenario whose steps all ran and passed has passed (an error must not wander to a neighbour)
    faultless = not (kinds - set(["Exception", "AssertionError", "Exception0", "AssertionError0"]))
    for name, statuses in ref.steps.items():
        if faultless and statuses and all(x in ("passed", "pending_warn") for x in statuses):
            floor[name] = "passed"      # every step ran and passed; hook / cleanup faults of this scenario: see below
        for x in statuses or []:
            # the first step with a problem decides (later undefined steps are only discovered)
            if x in ERROR_CLASS:
                floor[name] = "error"
                break
            if x == "failed":
                floor[name] = "failed"
                break
            if x is None:
                break
    kinds = set(k for _i, k in program.get("hook_faults") or [])
    if kinds - set(["Exception", "AssertionError", "Exception0", "AssertionError0"]):
        # interrupts / aborts / run-time skips in hooks end the run or exclude elements: only the
        # steps that are known to have run count (no hook-error floor)
        if "KeyboardInterrupt" in kinds or "abort" in kinds:
            return {}
        for kind, name in ref.cleanup_error_elems:
            if kind == "scenario":
                floor[name] = "error"       # a raising cleanup (registered by a step) is an error whatever the hooks skip
        return floor
    for kind, name in list(ref.hook_error_elems) + list(ref.cleanup_error_elems):
        if kind == "scenario":
            floor[name] = "error"
    return floor


def status_class(name):
    return "error" if name in ERROR_CLASS else name


def check_verdict(res, prefix, ref, run):
    if run.escaped is not None:
        res.fail(prefix + ".escape", "exception escaped run(): %r" % (run.escaped,))
        return
    if ref.failed and not run.failed:
        res.fail(prefix + ".false-green",
                 "run reports success but: %s" % "; ".join(ref.reasons[:3] or ["aborted"]))
    elif not ref.failed and run.failed:
        res.fail(prefix + ".false-red", "run reports failure but nothing went wrong in the selected part")


def check_calls(res, prefix, ref, run):
    if list(map(tuple, run.calls)) != list(map(tuple, ref.calls)):
        res.fail(prefix + ".call-log", "step functions called %r, expected %r"
                 % (run.calls[:12], ref.calls[:12]))


def check_step_statuses(res, prefix, ref, run):
    by_name = model_scenario_map(run.features)
    for name, expected in ref.steps.items():
        if expected is None:
            continue
        objs = by_name.get(name)
        if not objs or len(objs) != 1:
            res.fail(prefix + ".model-scenarios", "scenario %r found %d times in the model"
                     % (name, len(objs or [])))
            continue
        actual = [st.status.name for st in objs[0].all_steps]
        if len(actual) != len(expected):
            res.fail(prefix + ".step-count", "%s: %d steps, expected %d" % (name, len(actual), len(expected)))
            continue
        for i, (a, e) in enumerate(zip(actual, expected)):
            if e is None:
                continue
            if e == "untested" and a in ("untested", "untested_pending", "untested_undefined"):
                continue
            if a != e:
                res.fail(prefix + ".step-status.%s" % e,
                         "%s step #%d has status %s, expected %s (all: %s)" % (name, i, a, e, actual))
                break


def check_hooks(res, prefix, ref, run):
    """The hook log must equal the predicted one.  Hooks of containers that are entered only
    because their own tags match while no scenario in them is selected are an open point of
    the statement: both "they fire" and "they do not fire" are accepted."""
    act = list(map(tuple, run.hooks))
    exp_all = [(n, i) for (n, i, is_open) in ref.hooks]
    if act == exp_all:
        return
    exp_closed = [(n, i) for (n, i, is_open) in ref.hooks if not is_open]
    if len(exp_closed) != len(exp_all) and act == exp_closed:
        return
    exp = exp_all
    k = 0
    while k < min(len(act), len(exp)) and act[k] == exp[k]:
        k += 1
    res.fail(prefix + ".hook-log", "hook log differs at #%d: got %r, expected %r"
             % (k, act[k:k + 4], exp[k:k + 4]))


def run_and_ref(program, **kw):
    prog = resolve_faults(program)
    ref = refmodel.simulate(prog)
    run = run_program(prog, **kw)
    return prog, ref, run
