# -*- coding: utf-8 -*-
"""Reference interpreter over abstract programs (DESIGN.md 2.4 and Appendix A).

Written from the property statements and behave's documentation
(docs/appendix.status.rst, tutorial.rst, gherkin.rst, the --help texts).
It predicts, for one run: selected scenarios, step-function call log, per-step
status, hook log and the verdict.  Container statuses are NOT predicted here; C03
checks them as a relation over the actual child statuses.
"""
from __future__ import annotations

from . import tagref
from .program import all_steps_of, instances_of_item, step_outcome

TRUE = ["true"]


class Ref(object):
    pass


def tag_ast(cfg):
    ast = cfg.get("tagx") or TRUE
    if cfg.get("wip_flag"):
        ast = ["tag", "wip"] if ast == TRUE else ["and", ast, ["tag", "wip"]]
    return ast


def effective_tags(feature, inst):
    tags = set(feature.get("tags") or [])
    if inst["rule"] is not None:
        tags.update(inst["rule"].get("tags") or [])
    tags.update(inst["tags"])
    return tags


def outline_own_effective(feature, rule, outline):
    """Effective tags of the outline template itself (parametrised tags dropped)."""
    tags = set(t for t in outline["tags"] if not ("<" in t and ">" in t))
    tags.update(feature.get("tags") or [])
    if rule is not None:
        tags.update(rule.get("tags") or [])
    return tags


def step_status_for(outcome, wip):
    return {
        "pass": "passed", "takes": "passed", "nest": "passed", "abort": "passed", "fail": "failed", "raise": "error", "interrupt": "error",
        "raise_timeout": "error", "raise_notimpl": "error",
        "convert": "error", "convert_key": "error", "undefined": "undefined", "skip": "skipped",
        "pending": "pending_warn" if wip else "pending",
    }[outcome]


def simulate(program, deselected=None):
    """Simulate a run.  `deselected`: optional set of scenario-instance names excluded by
    location/name selection (C10/C17)."""
    cfg = program.get("cfg") or {}
    ast = tag_ast(cfg)
    dry = bool(cfg.get("dry_run"))
    stop = bool(cfg.get("stop") or cfg.get("wip_flag"))
    faults = {int(k): exc for k, exc in program.get("hook_faults", [])}
    named_faults = dict(((n, i), e) for n, i, e in program.get("hook_faults_named") or [])
    fault_kinds_used = set(faults.values()) | set(named_faults.values())
    hook_cleanups = {}
    for c in program.get("cleanups", []):
        hook_cleanups.setdefault(int(c["at"]), []).append(bool(c.get("raises")))
    deselected = deselected or set()
    run_index = int(program.get("run_index", 0))
    cont = bool(cfg.get("continue_after_failed"))

    ref = Ref()
    ref.fault_kinds = sorted(fault_kinds_used)
    ref.calls = []
    ref.hooks = []          # (name, ident, open?)
    ref.selected = []       # scenario instance names, run order
    ref.not_selected = []
    ref.steps = {}          # instance name -> [status names]  (None = not constrained)
    ref.processed = {}      # instance name -> [bool]: step gets a match/result formatter event
    ref.entered = {}        # (kind, name) -> bool: container hooks / formatter events fire
    ref.executed = set()    # instance names actually started
    ref.reasons = []        # why the run fails
    ref.hook_error_elems = []   # (kind, name) elements that must carry hook_error
    ref.hook_error_steps = []   # (scenario name, uid) steps that must carry hook_error
    ref.hook_owner = []         # parallel to ref.hooks: (kind, name) of the element a hook call belongs to
    ref.cleanup_error_elems = []
    ref.cleanup_expect = []     # cleanup ids in expected execution order
    ref.cleanup_pos = []        # (cleanup id, number of hook calls before it)
    ref.open_containers = set()
    ref.skipped_by_hook = set()     # (kind, name) excluded at run time by their own before-hook
    ref.untouched = []      # instance names never reached (stop / abort)
    ref.no_background = set()   # instance names that ran without the inherited background steps (use_background = False)
    ref.suppressed = set()  # instance names whose body was suppressed by a before-hook failure
    state = {"aborted": False, "stopped": False}

    class Layer(object):
        def __init__(self, kind, name):
            self.kind, self.name = kind, name
            self.cleanups = []      # (id, raises)
            self.hook_failed = False
            self.skip_requested = False     # a before-hook called <element>.skip()
            self.no_background = False      # the before_scenario hook set scenario.use_background = False

    layers = [Layer("testrun", "")]

    omitted = set(program.get("omit_hooks") or [])

    def hook(name, ident, owner=None, is_open=False):
        """Returns True if the hook raised."""
        if dry or name in omitted:
            return False
        k = len(ref.hooks)
        ref.hooks.append((name, ident, is_open))
        ref.hook_owner.append((owner.kind, owner.name) if owner is not None else ("testrun", ""))
        for raises in hook_cleanups.get(k, ()):
            layers[-1].cleanups.append(("h%d" % k, raises))
        if k not in faults and (name, ident) in named_faults:
            faults[k] = named_faults[(name, ident)]
        if faults.get(k) in ("skip", "skip_mark"):
            # the hook excludes its element at run time (documented: feature.skip() / scenario.skip()
            # in a before-hook); in any other hook this fault kind does nothing
            if owner is not None and name in ("before_feature", "before_rule", "before_scenario"):
                owner.skip_requested = True
            return False
        if faults.get(k) == "no_background":
            # the before_scenario hook switches the background off for its scenario (scenario.use_background = False)
            if owner is not None and name == "before_scenario":
                owner.no_background = True
            return False
        if faults.get(k) == "skip_feature":
            # an after_scenario hook skips the rest of its (partly executed) feature: the remaining scenarios
            # and rules of that feature are excluded like deselected ones; elsewhere the fault kind does nothing
            if name == "after_scenario":
                for lay in layers:
                    if lay.kind == "feature":
                        ref.skipped_by_hook.add(("feature", lay.name))
            return False
        if faults.get(k) == "abort":
            state["aborted"] = True
            ref.reasons.append("hook %s#%d aborted the run" % (name, k))
            return False
        if k in faults:
            ref.reasons.append("hook %s#%d raised" % (name, k))
            if name in ("before_all", "after_all"):
                state["aborted"] = True
            elif owner is not None:
                owner.hook_failed = True
            return True
        return False

    def pop_layer():
        layer = layers.pop()
        failed = False
        for cid, raises in reversed(layer.cleanups):
            ref.cleanup_expect.append(cid)
            ref.cleanup_pos.append((cid, len(ref.hooks)))
            if raises:
                failed = True
        if failed:
            ref.reasons.append("cleanup raised in %s %s" % (layer.kind, layer.name))
            if layer.kind != "testrun":
                ref.cleanup_error_elems.append((layer.kind, layer.name))
        return failed

    def halted():
        return state["aborted"] or state["stopped"]

    def on_failure():
        if stop:
            state["stopped"] = True

    import re as _re
    name_res = [_re.compile(p) for p in cfg.get("names") or []]

    def is_selected(feature, inst):
        if inst["name"] in deselected:
            return False
        if name_res and not any(r.search(inst["name"]) for r in name_res):
            return False        # --name: only scenarios whose name matches one of the patterns run (containers are entered
                                # as the tags say; the others are skipped without hooks)
        if ("feature", feature["name"]) in ref.skipped_by_hook:
            return False
        if inst["rule"] is not None and ("rule", inst["rule"]["name"]) in ref.skipped_by_hook:
            return False
        return tagref.evaluate(ast, effective_tags(feature, inst))

    def tag_selected(feature, inst):
        return tagref.evaluate(ast, effective_tags(feature, inst))

    def run_scenario(feature, inst):
        name = inst["name"]
        steps = all_steps_of(feature, inst)
        row = inst["rowdict"]
        sel = is_selected(feature, inst)
        if not sel:
            ref.not_selected.append(name)
            ref.steps[name] = ["skipped"] * len(steps)
            ref.processed[name] = [False] * len(steps)
            return False
        ref.selected.append(name)
        ref.executed.add(name)
        wip = "wip" in effective_tags(feature, inst)
        outcomes = [step_outcome(s, row, run_index) for s in steps]
        if dry:
            sts = ["undefined" if o == "undefined" else "untested" for o in outcomes]
            ref.steps[name] = sts
            ref.processed[name] = [True] * len(steps)
            if "undefined" in sts:
                ref.reasons.append("dry-run: undefined step in %s" % name)
            return False
        layer = Layer("scenario", name)
        layers.append(layer)
        failed = False
        for t in inst["tags"]:
            hook("before_tag", t, layer)
        hook("before_scenario", name, layer)
        if layer.no_background:
            steps = list(inst["item"]["steps"])
            outcomes = [step_outcome(s, row, run_index) for s in steps]
            ref.no_background.add(name)
        sts = []
        proc = []
        if layer.skip_requested and not layer.hook_failed:
            # excluded by its own before_scenario hook: steps skipped, nothing processed,
            # the after-hooks still run; not a failure
            sts = ["skipped"] * len(steps)
            ref.selected.remove(name)
            ref.executed.discard(name)
            ref.not_selected.append(name)
            ref.skipped_by_hook.add(("scenario", name))
        elif layer.hook_failed or state["aborted"]:
            # body suppressed (a run-time skip() after a failing hook marks the not executed steps skipped)
            sts = ["skipped" if layer.skip_requested else "untested"] * len(steps)
            ref.suppressed.add(name)
            failed = layer.hook_failed
        else:
            running = True
            after_failure = False
            for s, o in zip(steps, outcomes):
                if running:
                    proc.append(True)
                if running and o == "undefined":
                    # no definition: nothing to call, not even the step hooks
                    sts.append("undefined")
                    if not cont:
                        running = False
                        after_failure = True
                    failed = True
                    ref.reasons.append("step %s in %s -> undefined" % (s["uid"], name))
                elif running:
                    # before_step / step / after_step
                    step_layer = Layer("step", (name, s["uid"]))
                    hook("before_step", s["uid"], step_layer)
                    called = not step_layer.hook_failed
                    if called and o in ("interrupt", "abort"):
                        state["aborted"] = True     # whatever the after_step hook does
                    if not step_layer.hook_failed:
                        if o not in ("undefined", "convert", "convert_key"):
                            ref.calls.append((name, s["uid"]))
                            if s.get("cl"):
                                layer.cleanups.append(("s%s" % s["uid"], s["cl"] == "raise"))
                        if o == "nest":
                            # context.execute_steps(): sub-steps run with their step hooks until
                            # the first one that does not pass (the caller catches the error)
                            def run_subs(subs):
                                for sub in subs:
                                    sub_layer = Layer("substep", (name, sub["uid"]))
                                    hook("before_step", sub["uid"], sub_layer)
                                    if not sub_layer.hook_failed:
                                        ref.calls.append((name, sub["uid"]))
                                        if sub["o"] == "nest":
                                            # a sub-step that executes steps itself (and catches their failure)
                                            run_subs(sub["sub"])
                                    hook("after_step", sub["uid"], sub_layer)
                                    if sub_layer.hook_failed or sub["o"] not in ("pass", "nest"):
                                        break
                            run_subs(s["sub"])
                        status = step_status_for(o, wip)
                    else:
                        status = "hook_error"
                    hook("after_step", s["uid"], step_layer)
                    if step_layer.hook_failed:
                        status = "hook_error"
                        ref.hook_error_steps.append((name, s["uid"]))
                    sts.append(status)
                    if status in ("failed", "error", "undefined", "pending", "hook_error"):
                        if not cont:
                            running = False
                            after_failure = True
                        failed = True
                        ref.reasons.append("step %s in %s -> %s" % (s["uid"], name, status))
                        if o == "interrupt" and status == "error":
                            state["aborted"] = True
                    elif status == "skipped":
                        running = False
                else:
                    if after_failure and o == "undefined":
                        sts.append("undefined")
                    else:
                        sts.append("skipped")
        ref.steps[name] = sts
        ref.processed[name] = (proc + [False] * len(steps))[:len(steps)]
        hook("after_scenario", name, layer)
        for t in inst["tags"]:
            hook("after_tag", t, layer)
        if layer.hook_failed:
            failed = True
            ref.hook_error_elems.append(("scenario", name))
        if pop_layer():
            failed = True
        if failed:
            on_failure()
        return failed

    def container_entered(feature, rule):
        """(entered, open): entered by own effective tags or by a tag-selected descendant."""
        own = set(feature.get("tags") or [])
        if rule is not None:
            own.update(rule.get("tags") or [])
        own_match = tagref.evaluate(ast, own)
        desc = False
        items = rule["items"] if rule is not None else feature["items"]

        def item_match(item, r):
            if item["k"] == "r":
                return container_entered(feature, item)[0]
            if item["k"] == "o":
                if tagref.evaluate(ast, outline_own_effective(feature, r, item)):
                    return True
            for inst in scenario_instances_of(feature, item, r):
                if tag_selected(feature, inst):
                    return True
            return False
        for item in items:
            if item_match(item, rule):
                desc = True
                break
        return (own_match or desc), (not desc)

    def scenario_instances_of(feature, item, rule):
        return instances_of_item(item, rule)

    def mark_untouched(feature, items, rule):
        for item in items:
            if item["k"] == "r":
                mark_untouched(feature, item["items"], item)
            else:
                for inst in scenario_instances_of(feature, item, rule):
                    ref.untouched.append(inst["name"])
                    ref.steps[inst["name"]] = None

    def run_items(feature, items, rule):
        failed_any = False
        for idx, item in enumerate(items):
            if halted():
                mark_untouched(feature, items[idx:], rule)
                break
            if item["k"] == "r":
                if run_container(feature, item):
                    failed_any = True
            else:
                insts = list(scenario_instances_of(feature, item, rule))
                for j, inst in enumerate(insts):
                    if halted():
                        for rest in insts[j:]:
                            ref.untouched.append(rest["name"])
                            ref.steps[rest["name"]] = None
                        break
                    if run_scenario(feature, inst):
                        failed_any = True
        return failed_any

    def run_container(feature, rule=None):
        kind = "rule" if rule is not None else "feature"
        elem = rule if rule is not None else feature
        name = elem["name"]
        layer = Layer(kind, name)
        layers.append(layer)
        entered, is_open = container_entered(feature, rule)
        if rule is not None and ("feature", feature["name"]) in ref.skipped_by_hook:
            entered, is_open = False, False
        ref.entered[(kind, name)] = entered
        if is_open and entered:
            ref.open_containers.add((kind, name))
        failed = False
        items = elem["items"]
        hooks_called = entered and not dry
        if hooks_called:
            for t in elem.get("tags") or []:
                hook("before_tag", t, layer, is_open)
            hook("before_%s" % kind, name, layer, is_open)
        if layer.skip_requested and not layer.hook_failed:
            ref.skipped_by_hook.add((kind, name))
            ref.entered[(kind, name)] = False       # no formatter events unless skipped ones are shown
        if layer.hook_failed or state["aborted"]:
            mark_untouched(feature, items, rule)
            if layer.hook_failed:
                failed = True
        else:
            if run_items(feature, items, rule):
                failed = True
        if hooks_called:
            hook("after_%s" % kind, name, layer, is_open)
            for t in elem.get("tags") or []:
                hook("after_tag", t, layer, is_open)
        if layer.hook_failed:
            failed = True
            ref.hook_error_elems.append((kind, name))
        if pop_layer():
            failed = True
        if failed:
            on_failure()
        return failed

    # -- the run ----------------------------------------------------------
    hook("before_all", "")
    for fi, feature in enumerate(program["features"]):
        if halted():
            mark_untouched(feature, feature["items"], None)
            continue
        run_container(feature)
    hook("after_all", "")
    pop_layer()
    ref.failed = bool(ref.reasons) or state["aborted"]
    ref.aborted = state["aborted"]
    return ref
