# -*- coding: utf-8 -*-
"""Core data types shared by all checks: violations, case results, hashing."""
from __future__ import annotations

import hashlib
import json


class HarnessError(Exception):
    """The harness (generator / oracle plumbing) is wrong -- never a violation."""


class Violation(object):
    """One oracle clause that failed on one case.

    clause : stable identifier, e.g. "C01.verdict.false-green"; it is the bucket
             key used for "collect, then shrink" and for known findings.
    detail : human readable explanation (not part of the bucket).
    """
    __slots__ = ("clause", "detail", "info")

    def __init__(self, clause, detail="", info=None):
        self.clause = clause
        self.detail = detail
        self.info = info or {}     # structured facts for known-finding predicates

    def to_json(self):
        return {"clause": self.clause, "detail": self.detail}

    def __repr__(self):
        return "Violation(%s: %s)" % (self.clause, self.detail)


class CaseResult(object):
    """What a check reports for one case."""
    __slots__ = ("violations", "labels", "nontrivial", "evals")

    def __init__(self):
        self.violations = []
        self.labels = []
        self.nontrivial = False
        self.evals = 1      # number of executions of behave this case stands for

    def fail(self, clause, detail="", **info):
        self.violations.append(Violation(clause, detail, info))

    def label(self, *names):
        self.labels.extend(names)


def canon(obj):
    return json.dumps(obj, sort_keys=True, ensure_ascii=True, separators=(",", ":"),
                      default=_default)


def _default(o):
    if isinstance(o, (set, frozenset)):
        return sorted(o)
    if isinstance(o, tuple):
        return list(o)
    if isinstance(o, bytes):
        return o.decode("latin-1")
    raise TypeError("not JSON serialisable: %r" % (o,))


def case_hash(case):
    return hashlib.sha1(canon(case).encode("ascii")).hexdigest()[:16]


def abbreviate(obj, max_len=1500):
    """Return obj if its JSON is short, else a truncated JSON string."""
    text = canon(obj)
    if len(text) <= max_len:
        return json.loads(text)
    return text[:max_len] + "...(truncated, %d chars)" % len(text)
