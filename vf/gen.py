# -*- coding: utf-8 -*-
"""Hypothesis strategies for abstract programs (constructive, no filtering)."""
from __future__ import annotations

from hypothesis import strategies as st

from .program import OUTCOMES, PHRASE

TAGS = ["a", "b", "c", "wip", "x.y"]
# tags with a character that behave's tag normalisation for outline rows (Tag.make_name) would
# drop: used everywhere except ON outlines / inside outline tag placeholders (open point of C06)
# "android": contains the letters of and / or (never an operator); the last one is written with a DECOMPOSED accent
# (e + U+0301, as files saved on macOS have it): a tag is the sequence of code points written, in files and expressions
TAGS_X = TAGS + ["p/q", "android", u"cafe\u0301"]
STEP_KW = ["Given", "When", "Then", "And", "But", "*"]


def tags_st(max_size=2, pool=TAGS_X):
    return st.lists(st.sampled_from(pool), max_size=max_size, unique=True)


def outcome_st(outcomes=None, p_pass=0.6):
    outcomes = outcomes or OUTCOMES
    others = [o for o in outcomes if o != "pass"]
    if not others:
        return st.just("pass")
    return st.one_of(st.just("pass"), st.just("pass"), st.just("pass"),
                     st.sampled_from(others), st.sampled_from(others))


@st.composite
def step_st(draw, outcomes=None, cols=None, with_async=True, with_cleanup=False, first=False,
            inherited=False, typed=False):
    kws = STEP_KW if (not first or inherited) else ["Given", "When", "Then", "*"]
    step = {"kw": draw(st.sampled_from(kws))}
    if typed and draw(st.integers(0, 5)) == 0:
        # one text, bound per step type (program.PHRASE["typed"]); shared uids T0 / T1
        step["o"] = "typed"
        step["tk"] = draw(st.integers(0, 1))
        return step
    if cols and draw(st.integers(0, 2)) == 0:
        step["o"] = u"<%s>" % draw(st.sampled_from(cols))
    else:
        step["o"] = draw(outcome_st(outcomes))
        if step["o"] == "convert" and draw(st.booleans()):
            step["o"] = "convert_key"       # a type converter may raise anything (KeyError from a lookup table)
        if step["o"] == "raise" and draw(st.integers(0, 2)) == 0:
            # any exception type is an error, also TimeoutError and a plain NotImplementedError
            step["o"] = draw(st.sampled_from(["raise_timeout", "raise_notimpl"]))
    if with_async and step["o"] not in ("interrupt", "undefined", "convert", "convert_key", "takes") and \
            not step["o"].startswith("<") and draw(st.integers(0, 5)) == 0:
        step["a"] = draw(st.sampled_from([True, 2]))    # 2: @async_run_until_complete(timeout=...)
    if with_cleanup:
        c = draw(st.integers(0, 7))
        if c == 0:
            step["cl"] = "ok"
        elif c == 1:
            step["cl"] = "raise"
    return step


@st.composite
def steps_st(draw, min_size=0, max_size=4, inherited=False, **kw):
    n = draw(st.integers(min_size, max_size))
    steps = []
    for i in range(n):
        steps.append(draw(step_st(first=(i == 0), inherited=inherited, **kw)))
    return steps


@st.composite
def scenario_st(draw, inherited=False, max_steps=4, min_steps=0, **kw):
    return {"k": "s", "tags": draw(tags_st()),
            "steps": draw(steps_st(min_steps, max_steps, inherited=inherited, **kw))}


# cell values of a tag column: the rendered tag keeps letters and digits of any script
TAG_CELLS = TAGS + [u"z\u00fcrich", u"\u6771\u4eac"]


@st.composite
def outline_st(draw, inherited=False, max_steps=3, outcomes=None, **kw):
    outcomes = outcomes or OUTCOMES
    use_tagcol = draw(st.booleans())
    # the tag column may have a heading that is no identifier (user-id, e-mail): still a <placeholder>
    tcol = draw(st.sampled_from(["t", "t", "t-id"]))
    cols = ["x"] + ([tcol] if use_tagcol else [])
    tags = draw(tags_st(pool=TAGS))
    if use_tagcol and draw(st.booleans()):
        tags = tags + [u"<%s>" % tcol]
    steps = draw(steps_st(1, max_steps, inherited=inherited, outcomes=outcomes, cols=["x"], **kw))
    nex = draw(st.integers(0, 2)) if draw(st.integers(0, 5)) else 0
    if nex == 0 and draw(st.integers(0, 3)):
        nex = 1
    examples = []
    for _ in range(nex):
        nrows = draw(st.integers(0, 3))
        order = cols if draw(st.booleans()) else list(reversed(cols))
        rows = []
        for _ in range(nrows):
            o = draw(outcome_st(outcomes))
            if o == "convert" and draw(st.booleans()):
                o = "convert_key"
            if o == "raise" and draw(st.integers(0, 2)) == 0:
                o = draw(st.sampled_from(["raise_timeout", "raise_notimpl"]))
            cell = {"x": PHRASE[o],
                    tcol: draw(st.sampled_from(TAG_CELLS))}
            rows.append([cell[c] for c in order])
        examples.append({"tags": draw(tags_st(1)), "cols": list(order), "rows": rows,
                         "name": draw(st.sampled_from([u"", u"E1", u"ex two"]))})
    return {"k": "o", "tags": tags, "steps": steps, "ex": examples}


@st.composite
def item_st(draw, inherited=False, **kw):
    if draw(st.integers(0, 3)) == 0:
        return draw(outline_st(inherited=inherited, **kw))
    return draw(scenario_st(inherited=inherited, **kw))


@st.composite
def bg_st(draw, inherited=False, **kw):
    kw = dict(kw)
    kw.pop("cols", None)
    if draw(st.integers(0, 2)) == 0:
        if draw(st.integers(0, 3)) == 0:
            # background steps may contain <placeholders>: rendered for every outline row that inherits them
            # (for a plain scenario the text stays as written: no such step definition)
            kw["cols"] = ["x"]
        return draw(steps_st(0, 2, inherited=inherited, **kw))
    return None


@st.composite
def feature_st(draw, max_items=4, max_rules=2, min_items=0, min_rules=0, **kw):
    feat = {"tags": draw(tags_st())}
    bg = draw(bg_st(**kw))
    if bg is not None:
        feat["bg"] = bg
    has_bg_steps = bool(bg)
    nitems = draw(st.integers(min_items, max_items))
    items = [draw(item_st(inherited=has_bg_steps, **kw)) for _ in range(nitems)]
    nrules = draw(st.integers(min_rules, max_rules)) if (min_rules or draw(st.integers(0, 2)) == 0) else 0
    for _ in range(nrules):
        rule = {"k": "r", "tags": draw(tags_st())}
        rbg = draw(bg_st(inherited=has_bg_steps, **kw))
        if rbg is not None:
            rule["bg"] = rbg
        inh = has_bg_steps or bool(rbg)
        rule["items"] = [draw(item_st(inherited=inh, **kw))
                         for _ in range(draw(st.integers(0, 3)))]
        items.append(rule)
    feat["items"] = items
    return feat


# ---------------------------------------------------------------------------
# tag expressions
# ---------------------------------------------------------------------------
GLOBS = ["a*", "?", "x.*", "[ab]", "w?p", "*"]


def operand_st(globs=True):
    tag = st.sampled_from(TAGS_X).map(lambda t: ["tag", t])
    if not globs:
        return tag
    return st.one_of(tag, tag, tag, st.sampled_from(GLOBS).map(lambda g: ["glob", g]))


def tagx_v2_st(max_leaves=4, globs=True):
    return st.recursive(
        operand_st(globs),
        lambda inner: st.one_of(
            inner.map(lambda x: ["not", x]),
            st.tuples(st.sampled_from(["and", "or"]), inner, inner).map(list),
        ), max_leaves=max_leaves)


@st.composite
def tagx_v1_st(draw, max_clauses=3, max_lits=3):
    clauses = []
    for _ in range(draw(st.integers(1, max_clauses))):
        lits = []
        for _ in range(draw(st.integers(1, max_lits))):
            t = ["tag", draw(st.sampled_from(TAGS_X))]
            lits.append(["not", t] if draw(st.integers(0, 2)) == 0 else t)
        clauses.append(lits[0] if len(lits) == 1 else ["or"] + lits)
    return clauses[0] if len(clauses) == 1 else ["and"] + clauses


@st.composite
def tagcfg_st(draw, p_none=0.4):
    """-> dict(tagx, dialect, rv) or {}"""
    if draw(st.floats(0, 1)) < p_none:
        return {}
    if draw(st.integers(0, 3)) == 0:
        return {"tagx": draw(tagx_v1_st()), "dialect": "v1", "rv": draw(st.integers(0, 3))}
    cfg = {"tagx": draw(tagx_v2_st()), "dialect": "v2", "rv": draw(st.sampled_from(list(range(8)) + [16, 32, 33, 36]))}
    if draw(st.integers(0, 2)) == 0:
        cfg["tagform"] = "terms"        # several --tags options
        if cfg["tagx"][0] != "and" and draw(st.booleans()):
            cfg["tagx"] = ["and", cfg["tagx"], draw(tagx_v2_st(max_leaves=2))]
    return cfg


@st.composite
def cfg_st(draw, flags=("stop", "dry_run"), p_tags=0.6, show_skipped=True):
    cfg = dict(draw(tagcfg_st(p_none=1 - p_tags)))
    for f in flags:
        if draw(st.integers(0, 3)) == 0:
            cfg[f] = True
    if show_skipped and draw(st.booleans()):
        cfg["show_skipped"] = draw(st.booleans())
    return cfg


# ---------------------------------------------------------------------------
# magnitudes: one dimension of a program is blown up beyond what a hand-written test has
# (two-digit counts / indices, three- and four-digit line numbers, long names)
# ---------------------------------------------------------------------------
BIG_DIMS = ["rows", "items", "steps", "features", "tags", "lead", "longname", "examples", "rules", "ruleitems"]
MANY_TAGS = [u"t%d" % i for i in range(12)]


def _outlines_of(feats):
    for f in feats:
        for it in f["items"]:
            for sub in (it["items"] if it["k"] == "r" else [it]):
                if sub["k"] == "o":
                    yield sub


def _plain_of(feats):
    for f in feats:
        for it in f["items"]:
            for sub in (it["items"] if it["k"] == "r" else [it]):
                yield sub


def _row_for(draw, ex, outcomes):
    o = draw(outcome_st(outcomes))
    return [PHRASE[o] if c == "x" else draw(st.sampled_from(TAG_CELLS)) for c in ex["cols"]]


def _first_rule_index(items):
    for i, it in enumerate(items):
        if it["k"] == "r":
            return i
    return len(items)


@st.composite
def inflate(draw, feats, dims=None, **kw):
    """Blow up ONE dimension of the drawn features in place; returns the name of the dimension."""
    outcomes = kw.get("outcomes") or OUTCOMES
    skw = {k: v for k, v in kw.items() if k in ("outcomes", "with_async", "with_cleanup", "typed")}
    fkw = {k: v for k, v in kw.items() if k not in ("max_items", "max_rules", "min_items", "min_rules")}
    dim = draw(st.sampled_from(dims or BIG_DIMS))
    n = draw(st.integers(10, 13))
    if dim in ("rows", "examples"):
        cands = [o for o in _outlines_of(feats) if o["ex"]]
        if not cands:
            dim = "items"
        else:
            o = cands[draw(st.integers(0, len(cands) - 1))]
            if dim == "rows":
                ex = o["ex"][draw(st.integers(0, len(o["ex"]) - 1))]
                while len(ex["rows"]) < n:
                    ex["rows"].append(_row_for(draw, ex, outcomes))
            else:
                proto = o["ex"][0]
                while len(o["ex"]) < n:
                    ex = {"tags": draw(tags_st(1)), "cols": list(proto["cols"]), "name": u"E%d" % len(o["ex"]),
                          "rows": []}
                    ex["rows"] = [_row_for(draw, ex, outcomes) for _ in range(draw(st.integers(0, 2)))]
                    o["ex"].append(ex)
    if dim == "steps":
        cands = list(_plain_of(feats))
        if not cands:
            dim = "items"
        else:
            it = cands[draw(st.integers(0, len(cands) - 1))]
            front = draw(st.booleans())
            while len(it["steps"]) < n:
                step = {"kw": "Given", "o": "pass"}
                if front:
                    it["steps"].insert(0, step)
                else:
                    it["steps"].append(step)
    if dim == "ruleitems":
        rules = [it for f in feats for it in f["items"] if it["k"] == "r"]
        if not rules:
            dim = "rules"
        else:
            r = rules[draw(st.integers(0, len(rules) - 1))]
            while len(r["items"]) < n:
                r["items"].insert(draw(st.integers(0, len(r["items"]))),
                                  draw(scenario_st(max_steps=2, min_steps=1, **skw)))
    if dim == "rules":
        f = feats[draw(st.integers(0, len(feats) - 1))]
        while len([it for it in f["items"] if it["k"] == "r"]) < n:
            f["items"].append({"k": "r", "tags": draw(tags_st(1)),
                               "items": [draw(scenario_st(max_steps=2, min_steps=1, **skw))
                                         for _ in range(draw(st.integers(0, 1)) or 1)]})
    if dim == "items":
        f = feats[draw(st.integers(0, len(feats) - 1))]
        while _first_rule_index(f["items"]) < n:
            f["items"].insert(draw(st.integers(0, _first_rule_index(f["items"]))),
                              draw(scenario_st(max_steps=2, min_steps=1, **skw)))
    if dim == "features":
        while len(feats) < min(n, 11):
            feats.insert(draw(st.integers(0, len(feats))),
                         draw(feature_st(max_items=2, max_rules=1, min_items=1, **fkw)))
    if dim == "tags":
        els = list(feats) + [it for f in feats for it in f["items"]] + \
            [sub for f in feats for it in f["items"] if it["k"] == "r" for sub in it["items"]]
        el = els[draw(st.integers(0, len(els) - 1))]
        pool = [t for t in (TAGS if el.get("k") == "o" else TAGS_X) if t not in el["tags"]] + MANY_TAGS
        extra = draw(st.lists(st.sampled_from(pool), min_size=n, max_size=n, unique=True))
        el["tags"] = (el["tags"] + extra) if draw(st.booleans()) else (extra + el["tags"])
    if dim == "lead":
        f = feats[draw(st.integers(0, len(feats) - 1))]
        f["lead"] = draw(st.sampled_from([95, 99, 120, 990, 998, 1003]))
    if dim == "longname":
        els = list(feats) + list(_plain_of(feats))
        el = els[draw(st.integers(0, len(els) - 1))]
        el["name"] = u"L%d %s" % (draw(st.integers(0, 99)),
                                  u" ".join([u"lorem ipsum dolor"] * draw(st.integers(5, 16))))
    return dim


@st.composite
def program_st(draw, max_features=3, faults=True, cfg=None, peek=True, relog=False, big=True, big_dims=None, **kw):
    feats = [draw(feature_st(**kw)) for _ in range(draw(st.integers(1, max_features)))]
    prog = {"features": feats, "cfg": draw(cfg if cfg is not None else cfg_st())}
    if big and draw(st.integers(0, 15)) == 0:
        prog["big"] = draw(inflate(feats, dims=big_dims, **kw))
    if relog and draw(st.integers(0, 4)) == 0:
        # a passing step whose code reconfigures logging (replaces the root logger's handlers for good)
        from .harness import _all_step_lists
        cands = [s for f in feats for lst in _all_step_lists(f) for s in lst if s["o"] == "pass"]
        if cands:
            victim = cands[draw(st.integers(0, len(cands) - 1))]
            victim.setdefault("emit", {})["relog"] = draw(st.sampled_from(["clear", "basicConfig", "dictConfig"]))
    if peek and draw(st.integers(0, 3)) == 0:
        prog["peek"] = True         # hooks read element statuses (harness.Plan.peek)
    if prog["cfg"].get("tagx") and prog["cfg"].get("dialect") == "v2" and draw(st.integers(0, 3)) == 0:
        # select through a tag that exists only in RENDERED form on outline rows (@<column> tag placeholder)
        cells = []
        for f in feats:
            for it in f["items"]:
                for sub in (it["items"] if it["k"] == "r" else [it]):
                    if sub["k"] == "o":
                        for t in sub["tags"]:
                            if t.startswith(u"<"):
                                for ex in sub["ex"]:
                                    if t[1:-1] in ex["cols"]:
                                        cells += [row[ex["cols"].index(t[1:-1])] for row in ex["rows"]]
                        # ... or only as the tag of an Examples block
                        for ex in sub["ex"]:
                            if ex["rows"]:
                                cells += list(ex["tags"])
        if cells:
            prog["cfg"]["tagx"] = ["tag", draw(st.sampled_from(cells))]
            prog["cfg"].pop("tagform", None)
    if faults:
        if draw(st.integers(0, 5)) == 0:
            # hooks decorated with behave.log_capture.capture (documented for environment functions)
            prog["capture_hooks"] = draw(st.sampled_from(["plain", "error"]))
        f = draw(st.integers(0, 6))
        if f == 6:
            # run-time exclusion: a before_feature / before_rule / before_scenario hook calls <element>.skip()
            # (documented); at any other hook position this fault kind does nothing
            # ... or an after_scenario hook gives up the rest of its partly executed feature (context.feature.skip())
            prog["hook_faults"] = [[draw(st.integers(0, 10000)), draw(st.sampled_from(["skip", "skip", "skip_feature"]))]]
        elif f == 0:
            prog["hook_faults"] = [[draw(st.integers(0, 10000)),
                                    draw(st.sampled_from(["Exception", "AssertionError", "AssertionError0", "Exception0"]))]]
        elif f == 1:
            prog["cleanups"] = [{"at": draw(st.integers(0, 10000)), "raises": draw(st.booleans())}]
            if draw(st.booleans()):
                # environment.py installs its own handler for cleanup errors (context.on_cleanup_error)
                prog["cleanup_handler"] = draw(st.sampled_from(["true", "none", "builtin-ignore"]))
    return prog


@st.composite
def nestify(draw, prog, sub_outcomes=("pass", "pass", "fail", "raise"), p=4, strip_wip=False):
    """Turn some passing steps of plain scenarios into steps that execute other steps (context.execute_steps());
    returns the number of such steps.  strip_wip: no @wip anywhere (a pending sub-step is then a plain 'pending')."""
    count = 0
    for f in prog["features"]:
        if strip_wip:
            f["tags"] = [t for t in f["tags"] if t != "wip"]
        for it in f["items"]:
            if strip_wip:
                it["tags"] = [t for t in it["tags"] if t != "wip"]
            for sub in (it["items"] if it["k"] == "r" else [it]):
                if strip_wip:
                    sub["tags"] = [t for t in sub["tags"] if t != "wip"]
                    for ex in sub.get("ex") or []:
                        ex["tags"] = [t for t in ex["tags"] if t != "wip"]
                if sub["k"] != "s":
                    continue
                for s in sub["steps"]:
                    if s["o"] == "pass" and not s.get("a") and draw(st.integers(0, p - 1)) == 0:
                        count += 1
                        s["o"] = "nest"
                        s["sub"] = [{"uid": "n%d_%d" % (count, k), "o": draw(st.sampled_from(list(sub_outcomes)))}
                                    for k in range(draw(st.integers(1, 3)))]
    return count
