# -*- coding: utf-8 -*-
"""vf -- property-based verification machinery for behave (see /verif/DESIGN.md).

behave is always imported from BEHAVE_SRC (default /repo): the current working tree.
"""
import os
import sys

BEHAVE_SRC = os.environ.get("BEHAVE_SRC", "/repo")
if BEHAVE_SRC not in sys.path[:2]:
    sys.path.insert(0, BEHAVE_SRC)
