# -*- coding: utf-8 -*-
"""Execution harness: runs an abstract program through the REAL behave objects
(parser -> ModelRunner -> step functions / hooks / formatters / reporters), in-process.

The outcome of each step is encoded in its text, so a single static step library
serves every generated program (DESIGN.md 2.2 / 2.3).
"""
from __future__ import annotations

import io
import logging
import sys
import warnings

import vf  # noqa: F401  (puts BEHAVE_SRC first on sys.path)
from .core import HarnessError
from .program import render_feature, normalize, PHRASE as PHRASES

HOOK_NAMES = ["before_all", "after_all", "before_feature", "after_feature",
              "before_rule", "after_rule", "before_scenario", "after_scenario",
              "before_step", "after_step", "before_tag", "after_tag"]


class Plan(object):
    """Per-run side instructions and logs shared by step functions and hooks."""

    def __init__(self, program):
        self.calls = []         # (scenario name, uid)
        self.hooks = []         # (hook name, ident)
        self.cleanup_log = []   # cleanup ids in execution order
        self.cleanup_pos = []   # (cleanup id, number of hook calls seen so far)
        self.notes = []         # property specific observations made inside steps
        self.hook_faults = {int(k): exc for k, exc in program.get("hook_faults", [])}
        # faults by hook name + element (raised at EVERY call of that hook for that element, e.g. in
        # every auto-retry attempt): [[hook name, ident, kind]]
        self.hook_faults_named = dict(((n, i), e) for n, i, e in program.get("hook_faults_named") or [])
        # faults by hook name + element that are raised only in ONE auto-retry attempt: [[hook name, ident, kind, attempt]]
        self.hook_faults_attempts = dict(((n, i, int(a)), e) for n, i, e, a in program.get("hook_faults_attempts") or [])
        # message of the exception that a raising cleanup raises (hostile text for the reporters)
        self.cleanup_msg = program.get("cleanup_msg")
        self.hook_cleanups = {}
        for c in program.get("cleanups", []):
            self.hook_cleanups.setdefault(int(c["at"]), []).append(c)
        self.step_info = {}     # uid -> step dict (cleanup registration, emits ...)
        self.observers = []     # callables(kind, name, context, arg) for property specific probes
        self.cleanup_seq = 0
        self.run_index = int(program.get("run_index", 0))
        self.registered_cleanups = []   # (id, owner-layer)
        self.ran_scenarios = []  # Scenario objects handed to before_scenario (the objects that RAN)
        # hooks READ the status of their element (and of the enclosing ones) before doing anything else --
        # the usual `if scenario.status == Status.failed: take_screenshot()` idiom; reading must not
        # change any outcome
        self.peek = bool(program.get("peek"))
        # before_all / before_feature / before_scenario note which tag-expression dialect is in force for
        # expressions that user code builds during the run (make_tag_expression without a protocol)
        self.probe_protocol = bool(program.get("probe_protocol"))
        # hooks wrapped with the documented behave.log_capture.capture decorator:
        # None | "plain" (@capture) | "error" (@capture(level=logging.ERROR))
        self.capture_hooks = program.get("capture_hooks")
        # the environment file defines no before_all hook (behave then installs its default one, which sets up logging)
        self.no_before_all = bool(program.get("no_before_all"))
        # hook functions that the environment file does not define at all (e.g. after_tag without before_tag)
        self.omit_hooks = list(program.get("omit_hooks") or [])
        # before_all installs a user handler for cleanup errors (documented: context.on_cleanup_error = handler);
        # whatever the handler does or returns, a raising cleanup still counts
        self.cleanup_handler = program.get("cleanup_handler")
        # how the environment file defines its hooks: plain functions (default), functools.partial objects,
        # bound methods of a helper object, or callable instances -- any callable is a hook
        self.hook_style = program.get("hook_style")


_EXC = {"Exception": RuntimeError, "AssertionError": AssertionError, "KeyboardInterrupt": KeyboardInterrupt}


def make_cleanup(plan, cid, raises):
    def cleanup():
        plan.cleanup_log.append(cid)
        plan.cleanup_pos.append((cid, len(plan.hooks)))
        if raises:
            raise RuntimeError(plan.cleanup_msg if plan.cleanup_msg is not None else "cleanup %s raises" % cid)
    cleanup.__name__ = "cleanup_%s" % cid
    return cleanup


def make_hooks(plan):
    def make(name):
        def hook(context, *args):
            from . import disklib
            current = disklib.CURRENT_PLAN
            if current is not None and current is not plan:
                # a hook function of an EARLIER run (another environment file) is called in this run
                current.notes.append({"kind": "stale-hook", "hook": name})
                return
            if name in ("before_tag", "after_tag"):
                ident = str(args[0])
            elif args:
                ident = getattr(args[0], "name", None)
                if name in ("before_step", "after_step"):
                    ident = _uid_of(args[0].name)
            else:
                ident = ""
            k = len(plan.hooks)
            plan.hooks.append((name, ident))
            if name == "before_scenario":
                plan.ran_scenarios.append(args[0])
            if plan.peek:
                for attr in ("scenario", "rule", "feature"):
                    elem = getattr(context, attr, None)
                    if elem is not None:
                        elem.status     # noqa: read only
                if args and hasattr(args[0], "status"):
                    args[0].status      # noqa: read only
            if plan.cleanup_handler and name == "before_all":
                if plan.cleanup_handler == "builtin-ignore":
                    context.on_cleanup_error = context.ignore_cleanup_error
                else:
                    seen_errors = plan.notes
                    result = {"true": True, "none": None}[plan.cleanup_handler]

                    def handle_cleanup_error(context_, cleanup_func, exception, _result=result):
                        seen_errors.append({"kind": "cleanup-error-handled", "error": repr(exception)[:80]})
                        return _result
                    context.on_cleanup_error = handle_cleanup_error
            if plan.probe_protocol and name in ("before_all", "before_feature", "before_scenario"):
                from behave.tag_expression import TagExpressionProtocol, make_tag_expression
                note = {"kind": "protocol", "hook": name, "value": TagExpressionProtocol.current().name}
                try:
                    note["a,b matches [a]"] = bool(make_tag_expression("a,b").check(["a"]))
                except Exception as e:  # noqa
                    note["a,b matches [a]"] = "error: %s" % e.__class__.__name__
                plan.notes.append(note)
            for obs in plan.observers:
                obs("hook", name, context, args[0] if args else None)
            for c in plan.hook_cleanups.get(k, ()):
                cid = "h%d" % k
                plan.registered_cleanups.append(cid)
                context.add_cleanup(make_cleanup(plan, cid, c.get("raises")))
            exc = plan.hook_faults.get(k) or plan.hook_faults_named.get((name, ident)) or \
                plan.hook_faults_attempts.get((name, ident, plan.run_index))
            if exc in ("skip", "skip_mark"):
                # documented run-time exclusion: the before-hook skips its own element
                # (skip(), or mark_skipped() which "can be called before the element is executed")
                if args and name in ("before_feature", "before_rule", "before_scenario"):
                    if exc == "skip":
                        args[0].skip()
                    else:
                        args[0].mark_skipped()
            elif exc == "no_background":
                # public switch (since 1.2.7): this scenario runs without the inherited background steps
                if name == "before_scenario" and args:
                    args[0].use_background = False
            elif exc == "skip_feature":
                # documented: feature.skip() may be called on a partly executed feature (fail-fast per feature)
                if name == "after_scenario":
                    context.feature.skip()
            elif exc == "abort":
                context.abort(reason="hook #%d aborts the run" % k)
            elif exc:
                if exc.endswith("0"):
                    raise _EXC[exc[:-1]]()      # without any message (a bare `assert cond` / `raise X()`)
                raise _EXC[exc]("hook fault #%d in %s" % (k, name))
        hook.__name__ = name
        if plan.capture_hooks and name not in ("before_all", "after_all"):
            from behave.log_capture import capture
            wrapped = capture(hook) if plan.capture_hooks == "plain" else capture(level=logging.ERROR)(hook)
            wrapped.__name__ = name
            return wrapped
        return hook
    return dict((name, make(name)) for name in HOOK_NAMES)


def _uid_of(step_name):
    parts = step_name.split()
    if parts and parts[0] in ("async", "asynct"):
        parts = parts[1:]
    if len(parts) >= 2 and parts[0] == "step":
        return parts[1]
    return step_name


def _table_cells(table):
    if table is None:
        return None
    return [list(table.headings)] + [list(r.cells) for r in table.rows]


def _csv_converter(text):
    return [part.strip() for part in text.split(",")]


_csv_converter.pattern = r"[a-z](?:,[a-z])*"


def _bad_converter(text):
    if text.startswith("k"):
        raise KeyError(text)        # a converter may raise anything (e.g. an enum lookup)
    raise ValueError("cannot convert %r" % text)


_bad_converter.pattern = r"\S+"


def step_definitions(plan):
    """The static step library bound to `plan`: list of (pattern, function)."""
    from behave.api.pending_step import StepNotImplementedError
    from behave.api.async_step import async_run_until_complete

    def enter(context, uid):
        scenario = getattr(context, "scenario", None)
        plan.calls.append((scenario.name if scenario is not None else None, uid))
        info = plan.step_info.get(uid)
        if info:
            cl = info.get("cl")
            if cl:
                cid = "s%s" % uid
                plan.registered_cleanups.append(cid)
                context.add_cleanup(make_cleanup(plan, cid, cl == "raise"))
            emit = info.get("emit")
            if emit:
                import logging as _logging
                import sys as _sys
                sname = scenario.name if scenario is not None else ""
                if emit.get("stdout") is not None:
                    _sys.stdout.write(emit["stdout"].replace("{S}", sname))
                if emit.get("stderr") is not None:
                    _sys.stderr.write(emit["stderr"].replace("{S}", sname))
                if emit.get("log") is not None:
                    _logging.getLogger(emit.get("logger") or "vf").log(
                        int(emit.get("level") or _logging.WARNING), emit["log"].replace("{S}", sname))
                    for i in range(int(emit.get("flood") or 0)):
                        # many records in one scenario (more than a buffering handler's capacity)
                        _logging.getLogger(emit.get("logger") or "vf").log(
                            int(emit.get("level") or _logging.WARNING),
                            emit["log"].replace("{S}", sname) + "#%d;" % i)
                if emit.get("relevel"):
                    # user code changes the level of the root logger while a scenario runs
                    _logging.getLogger().setLevel(getattr(_logging, emit["relevel"]))
                if emit.get("relog"):
                    # the application under test configures logging on its own: the root logger's handlers
                    # (behave's capture handler among them) are replaced and not put back
                    if emit["relog"] == "clear":
                        _logging.getLogger().handlers[:] = []
                    elif emit["relog"] == "basicConfig":
                        import io as _io
                        _logging.basicConfig(force=True, stream=_io.StringIO())
                    elif emit["relog"] == "dictConfig":
                        import logging.config as _lc
                        _lc.dictConfig({"version": 1, "disable_existing_loggers": False,
                                        "handlers": {"null": {"class": "logging.NullHandler"}},
                                        "root": {"handlers": ["null"], "level": "WARNING"}})
        for obs in plan.observers:
            obs("step", uid, context, info)

    def message(uid, default):
        info = plan.step_info.get(uid) or {}
        emit = info.get("emit") or {}
        return emit["msg"] if emit.get("msg") is not None else default

    RETURNS = {"False": False, "0": 0, "True": True, "text": u"a value", "empty": u""}

    def do_pass(context, uid):
        enter(context, uid)
        # a step function may return anything (a step that doubles as a helper): what it returns is not an outcome
        ret = ((plan.step_info.get(uid) or {}).get("emit") or {}).get("ret")
        if ret is not None:
            return RETURNS[ret]

    def do_fail(context, uid):
        enter(context, uid)
        assert False, message(uid, "step %s fails" % uid)

    def do_raise(context, uid):
        enter(context, uid)
        raise RuntimeError(message(uid, "step %s raises" % uid))

    def do_raise_timeout(context, uid):
        enter(context, uid)
        raise TimeoutError(message(uid, "step %s times out" % uid))

    def do_raise_notimpl(context, uid):
        enter(context, uid)
        raise NotImplementedError(message(uid, "step %s hits a stub" % uid))

    def do_pending(context, uid):
        enter(context, uid)
        raise StepNotImplementedError("step %s pends" % uid)

    def do_skip(context, uid):
        enter(context, uid)
        context.scenario.skip()

    def do_interrupt(context, uid):
        enter(context, uid)
        raise KeyboardInterrupt()

    def do_abort(context, uid):
        enter(context, uid)
        context.abort(reason="step %s aborts the run" % uid)

    def do_convert(context, uid, n):
        enter(context, uid)     # must never be reached: conversion of n fails

    by_outcome = {"pass": do_pass, "fail": do_fail, "raise": do_raise, "raise_timeout": do_raise_timeout,
                  "raise_notimpl": do_raise_notimpl, "pending": do_pending,
                  "skip": do_skip, "interrupt": do_interrupt}

    def do_act(context, uid):
        # outcome looked up at call time (repeated runs of the same model objects)
        info = plan.step_info[uid]
        acts = info["acts"]
        by_outcome[acts[plan.run_index % len(acts)]](context, uid)

    def do_nest(context, uid):
        """Calls context.execute_steps() with generated sub-steps; the caller's text/table must
        be restored afterwards whether the sub-steps pass or fail (the caller catches)."""
        enter(context, uid)
        info = plan.step_info[uid]
        before = (context.text, _table_cells(context.table))
        lines = []
        for sub in info["sub"]:
            lines.append(u"Given step %s %s" % (sub["uid"], PHRASES[sub["o"]]))
            if sub.get("text") is not None:
                lines.append(u'  """')
                lines.extend(u"  " + t for t in sub["text"].split(u"\n"))
                lines.append(u'  """')
            elif sub.get("table"):
                for row in sub["table"]:
                    lines.append(u"  | " + u" | ".join(row) + u" |")
        raised = None
        try:
            context.execute_steps(u"\n".join(lines) + u"\n")
        except AssertionError as e:
            raised = "AssertionError"
        after = (context.text, _table_cells(context.table))
        plan.notes.append({"kind": "nest", "uid": uid, "before": before, "after": after,
                           "raised": raised})

    table = [("passes", do_pass), ("fails", do_fail), ("raises", do_raise), ("times out", do_raise_timeout),
             ("hits a stub", do_raise_notimpl), ("pends", do_pending), ("skips", do_skip), ("interrupts", do_interrupt),
             ("acts", do_act), ("nests", do_nest), ("aborts", do_abort)]
    defs = []
    for phrase, func in table:
        defs.append((u"step {uid:w} %s" % phrase, func))
    defs.append((u"step {uid:w} misconverts {n:Bad}", do_convert))

    def do_takes(context, uid, items):
        enter(context, uid)
        assert items == ["a", "b", "c"], "the step function received %r instead of the converted value" % (items,)
    defs.append((u"step {uid:w} takes {items:Csv}", do_takes))

    # -- variants with a free-text tail (hostile characters in step names)
    def with_tail(func):
        def step_with_tail(context, uid, tail):
            func(context, uid)
        step_with_tail.__name__ = func.__name__ + "_with_tail"
        return step_with_tail
    for phrase, func in (("passes", do_pass), ("fails", do_fail), ("raises", do_raise)):
        defs.append((u"step {uid:w} %s with {tail}" % phrase, with_tail(func)))

    # -- async twins
    def make_async(func, timeout=None):
        if timeout is None:
            @async_run_until_complete
            async def astep(context, uid):
                func(context, uid)
        else:
            @async_run_until_complete(timeout=timeout)
            async def astep(context, uid):
                func(context, uid)
        astep.__name__ = "async_" + func.__name__
        return astep
    for phrase, func in table:
        if func is do_interrupt:
            continue
        defs.append((u"async step {uid:w} %s" % phrase, make_async(func)))
        defs.append((u"asynct step {uid:w} %s" % phrase, make_async(func, timeout=30)))
    return defs


def typed_step_definitions(plan):
    """[(step type, pattern, function)]: one text bound per step type (passing for given, failing for
    then, nothing for when)."""
    lookup = dict((f.__name__, f) for _p, f in step_definitions(plan))
    return [("given", u"step {uid:w} depends", lookup["do_pass"]),
            ("then", u"step {uid:w} depends", lookup["do_fail"])]


def ensure_types():
    from behave.matchers import ParseMatcher
    if not ParseMatcher.has_registered_type("Bad"):
        ParseMatcher.register_type(Bad=_bad_converter)
    if not ParseMatcher.has_registered_type("Csv"):
        ParseMatcher.register_type(Csv=_csv_converter)


def build_registry(plan):
    """Fresh StepRegistry with the static step library bound to `plan`."""
    from behave.step_registry import StepRegistry
    from behave.matchers import get_step_matcher_factory
    get_step_matcher_factory().reset()
    ensure_types()
    registry = StepRegistry()
    for pattern, func in step_definitions(plan):
        registry.add_step_definition("step", pattern, func)
    for stype, pattern, func in typed_step_definitions(plan):
        registry.add_step_definition(stype, pattern, func)
    return registry


# ---------------------------------------------------------------------------
# configuration
# ---------------------------------------------------------------------------
def make_config(cfg, extra_args=None):
    from behave.configuration import Configuration
    from behave.tag_expression import TagExpressionProtocol
    args = ["--no-color"]
    if not cfg.get("summary"):
        args.append("--no-summary")
    if cfg.get("stop"):
        args.append("--stop")
    if cfg.get("dry_run"):
        args.append("--dry-run")
    if cfg.get("show_skipped") is False:
        args.append("--no-skipped")
    elif cfg.get("show_skipped"):
        args.append("--show-skipped")
    if cfg.get("wip_flag"):
        args.append("--wip")
    if cfg.get("verbose"):
        args.append("--verbose")
    proto = cfg.get("proto")
    if proto:
        args.append("--tag-expression-protocol=%s" % proto)
    for t in cfg.get("tags") or []:
        args.append("--tags=%s" % t)
    if cfg.get("tagx"):
        from . import tagref
        if cfg.get("dialect") == "v1":
            for a in tagref.render_v1(cfg["tagx"], cfg.get("rv", 0)):
                args.append("--tags=%s" % a)
        else:
            if cfg.get("tagform") == "terms":
                # one --tags option per operand of a top-level 'and' (behave ANDs the options)
                for term in tagref.render_v2_terms(cfg["tagx"], cfg.get("rv", 0)):
                    args.append("--tags=%s" % term)
            else:
                args.append("--tags=%s" % tagref.render_v2(cfg["tagx"], cfg.get("rv", 0)))
    for n in cfg.get("names") or []:
        args.extend(["--name", n])
    for name in ("stdout", "stderr", "log"):
        key = "capture_%s" % name
        if cfg.get(key) is True:
            args.append({"stdout": "--capture", "stderr": "--capture-stderr", "log": "--logcapture"}[name])
        elif cfg.get(key) is False:
            args.append({"stdout": "--no-capture", "stderr": "--no-capture-stderr", "log": "--no-logcapture"}[name])
    if extra_args:
        args.extend(extra_args)
    kwargs = {}
    if cfg.get("schema"):
        # name schema of outline rows (configuration-file option scenario_outline_annotation_schema)
        kwargs["scenario_outline_annotation_schema"] = cfg["schema"]
    config = Configuration(args, load_config=False, **kwargs)
    return config


class RunResult(object):
    pass


def reset_globals():
    """Reset process-global state that behave keeps between runs."""
    from behave.matchers import get_step_matcher_factory
    from behave.model import Scenario, ScenarioOutline, ScenarioOutlineBuilder
    from behave.tag_expression import TagExpressionProtocol
    get_step_matcher_factory().reset()
    Scenario.continue_after_failed_step = False
    ScenarioOutline.annotation_schema = ScenarioOutlineBuilder.annotation_schema
    TagExpressionProtocol.use(TagExpressionProtocol.DEFAULT)


def parse_program(program, filename_fmt="features/f%d.feature"):
    from behave.parser import parse_feature
    features = []
    texts = []
    for fi, feat in enumerate(program["features"]):
        text, facts = render_feature(feat)
        texts.append(text)
        model = parse_feature(text, language=feat.get("lang"), filename=filename_fmt % fi)
        if model is None:
            raise HarnessError("rendered feature did not parse to a feature: %r" % text)
        features.append(model)
    return features, texts


def run_program(program, formatters=None, reporters=None, features=None, config=None,
                observers=None, keep_stdout=False, setup=None, runner=None):
    """Run the program through ModelRunner; returns RunResult with
    .failed .features .calls .hooks .cleanup_log .stdout .escaped(exception or None) .runner .config
    """
    normalize(program)
    reset_globals()
    plan = Plan(program)
    from . import disklib as _disklib
    _disklib.CURRENT_PLAN = plan
    if observers:
        plan.observers.extend(observers)
    for feat in program["features"]:
        for steps in _all_step_lists(feat):
            for s in steps:
                if s.get("cl") or s.get("emit") or s.get("acts") or s.get("sub"):
                    plan.step_info[s["uid"]] = s
                # sub-steps that execute steps themselves (execute_steps() nested two levels deep)
                pending_subs = list(s.get("sub") or [])
                while pending_subs:
                    sub = pending_subs.pop()
                    if sub.get("sub"):
                        plan.step_info[sub["uid"]] = sub
                        pending_subs.extend(sub["sub"])
    if config is None:
        config = make_config(program.get("cfg") or {})
    texts = None
    if features is None:
        # "fname_fmt": the feature files live in a deeply nested directory (locations longer than a terminal line)
        features, texts = parse_program(program, program.get("fname_fmt") or "features/f%d.feature")
    from behave.runner import ModelRunner
    registry = build_registry(plan)
    if runner is None:
        runner = ModelRunner(config, features, step_registry=registry)
    else:
        # the same runner object runs again (public API: runner.run() may be called more than once)
        runner.config = config
        runner.features = features
        runner.step_registry = registry
    runner.hooks = make_hooks(plan)
    for name in plan.omit_hooks:
        runner.hooks.pop(name, None)
    if formatters:
        runner.formatters = formatters(config) if callable(formatters) else list(formatters)
    if reporters is not None:
        config.reporters = reporters(config) if callable(reporters) else list(reporters)
    if (program.get("cfg") or {}).get("continue_after_failed"):
        from behave.model import Scenario
        Scenario.continue_after_failed_step = True
    if setup:
        setup(runner, plan)

    result = RunResult()
    result.escaped = None
    result.failed = None
    old_out, old_err = sys.stdout, sys.stderr
    buf = io.StringIO()
    root = logging.getLogger()
    old_handlers = list(root.handlers)
    old_level = root.level
    if not keep_stdout:
        sys.stdout = buf
    try:
        with warnings.catch_warnings():
            warnings.simplefilter("ignore")
            try:
                result.failed = runner.run()
            except BaseException as e:     # noqa -- "nothing escapes run()" is checked by callers
                if isinstance(e, (SystemExit, MemoryError)):
                    raise
                result.escaped = e
    finally:
        result.stdout_after = sys.stdout
        result.stderr_after = sys.stderr
        sys.stdout, sys.stderr = old_out, old_err
        root.handlers[:] = old_handlers
        root.setLevel(old_level)
        from behave.model import Scenario as _Scenario
        _Scenario.continue_after_failed_step = False
    result.stdout = buf.getvalue()
    result.features = features
    result.texts = texts
    result.calls = plan.calls
    result.hooks = plan.hooks
    result.cleanup_log = plan.cleanup_log
    result.registered_cleanups = plan.registered_cleanups
    result.cleanup_pos = plan.cleanup_pos
    result.notes = plan.notes
    result.ran_scenarios = plan.ran_scenarios
    result.runner = runner
    result.config = config
    result.plan = plan
    return result


def _all_step_lists(feat):
    if feat.get("bg"):
        yield feat["bg"]
    for item in feat["items"]:
        if item["k"] == "r":
            if item.get("bg"):
                yield item["bg"]
            for sub in item["items"]:
                yield sub["steps"]
        else:
            yield item["steps"]


# ---------------------------------------------------------------------------
# model census helpers
# ---------------------------------------------------------------------------
def model_scenarios(feature):
    """All concrete scenarios (rows expanded) of a behave Feature in run order."""
    return list(feature.walk_scenarios())


def snapshot(features):
    """Status snapshot of the whole model: nested dicts with names and status names."""
    from behave.model import Rule, ScenarioOutline

    def scen(s):
        return {"kind": "scenario", "name": s.name, "status": s.status.name,
                "steps": [(st.name, st.status.name) for st in s.all_steps],
                "hook_failed": bool(s.hook_failed)}

    def item(x):
        if isinstance(x, Rule):
            return {"kind": "rule", "name": x.name, "status": x.status.name,
                    "hook_failed": bool(x.hook_failed),
                    "items": [item(y) for y in x.run_items]}
        if isinstance(x, ScenarioOutline):
            return {"kind": "outline", "name": x.name, "status": x.status.name,
                    "items": [scen(y) for y in x.scenarios]}
        return scen(x)

    out = []
    for f in features:
        out.append({"kind": "feature", "name": f.name, "status": f.status.name,
                    "hook_failed": bool(f.hook_failed),
                    "items": [item(x) for x in f.run_items]})
    return out
