# -*- coding: utf-8 -*-
"""Step library / hooks as loaded from a scratch project's features/steps/lib.py and
features/environment.py (Runner and CLI routes)."""
from __future__ import annotations

import atexit
import json
import os

from . import harness

CURRENT_PLAN = None     # set by in-process callers; loaded from $VF_PLAN in child processes
_dump_registered = False


def get_plan():
    global CURRENT_PLAN, _dump_registered
    if CURRENT_PLAN is None:
        data = {}
        path = os.environ.get("VF_PLAN")
        if path and os.path.exists(path):
            with open(path) as f:
                data = json.load(f)
        plan = harness.Plan(data)
        plan.step_info = data.get("step_info", {})
        CURRENT_PLAN = plan
        if os.environ.get("VF_LOG") and not _dump_registered:
            _dump_registered = True
            atexit.register(dump_log)
    return CURRENT_PLAN


def dump_log():
    plan = CURRENT_PLAN
    path = os.environ.get("VF_LOG")
    if plan is None or not path:
        return
    with open(path, "w") as f:
        json.dump({"calls": plan.calls, "hooks": plan.hooks, "cleanups": plan.cleanup_log,
                   "notes": getattr(plan, "notes", [])}, f)


def install_steps(step_globals):
    plan = get_plan()
    harness.ensure_types()
    step = step_globals["step"]
    for pattern, func in harness.step_definitions(plan):
        step(pattern)(func)
    for stype, pattern, func in harness.typed_step_definitions(plan):
        step_globals[stype](pattern)(func)


def make_disk_hooks():
    plan = get_plan()
    hooks = harness.make_hooks(plan)
    if plan.no_before_all:
        hooks.pop("before_all", None)
    for name in plan.omit_hooks:
        hooks.pop(name, None)
    style = getattr(plan, "hook_style", None)
    if style == "partial":
        import functools

        def trace(hook_func, *args):
            return hook_func(*args)
        hooks = dict((name, functools.partial(trace, func)) for name, func in hooks.items())
    elif style == "method":
        class Hooks(object):
            pass
        holder = Hooks()
        for name, func in hooks.items():
            setattr(Hooks, name, (lambda f: lambda self, *args: f(*args))(func))
        hooks = dict((name, getattr(holder, name)) for name in hooks)
    elif style == "callable":
        class Hook(object):
            def __init__(self, func):
                self.func = func

            def __call__(self, *args):
                return self.func(*args)
        hooks = dict((name, Hook(func)) for name, func in hooks.items())
    return hooks
