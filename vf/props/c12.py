# -*- coding: utf-8 -*-
"""C12 -- Hooks: nested order, after-hooks always paired, hook faults contained."""
from __future__ import annotations

import copy

from hypothesis import strategies as st

from .. import gen, refmodel, runcheck
from ..core import CaseResult, case_hash
from ..harness import run_program, snapshot, _all_step_lists as runcheck_step_lists
from ..program import normalize, scenario_instances

ID = "C12"
LEVEL = "fault_enumeration"
RULE = ("For each generated program (tags at every level, tag expression, optional --stop / dry-run) the fault-free run "
        "yields the hook log H; then EVERY index k of H is an injection point (the k-th hook call raises Exception, and "
        "AssertionError for every second program), plus all pairs k1<k2 when |H| <= 14 (sampled above). One case = one "
        "(program, fault set). Oracle: nothing escapes run(); verdict failed; hook log == predicted log and accepted by an "
        "independent push-down recogniser of the nesting grammar; exactly the element concerned carries hook-error; "
        "step calls / step statuses == prediction (body suppressed after a failing before-hook); every element outside the "
        "faulted element's ancestry keeps its fault-free status. Non-trivial = injection point is not before_all/after_all "
        "and the program has >= 2 scenario instances.")
ASSUMPTIONS = [
    "hook faults are Exception / AssertionError (KeyboardInterrupt or SystemExit in hooks are not injected)",
    "hooks of a container entered only through its own tags (no scenario selected) may or may not fire",
]
SIMPLIFY = {"o": lambda v: "pass" if not v.startswith("<") else None, "tagx": "nullable", "bg": "nullable"}
WATCHDOG_S = {"quick": 900, "thorough": 4 * 3600}

_BASELINE = {}


def baseline_for(prog):
    """Fault-free run of the program (cached per process for the enumeration over k)."""
    p = copy.deepcopy(prog)
    p.pop("hook_faults", None)
    p.pop("cleanups", None)
    key = case_hash(p)
    hit = _BASELINE.get(key)
    if hit is None:
        if len(_BASELINE) > 8:
            _BASELINE.clear()
        ref = refmodel.simulate(p)
        run = run_program(p)
        hit = (ref, flat_statuses(run.features), run.escaped, list(run.hooks))
        _BASELINE[key] = hit
    return hit


def flat_statuses(features):
    """(kind, name) -> status name, for features, rules, outlines, scenarios."""
    out = {}

    def walk(node, fname):
        key = (node["kind"], node["name"] if node["kind"] != "outline" else fname + "/" + node["name"])
        out[key] = node["status"]
        for sub in node.get("items", []):
            walk(sub, fname)
    for f in snapshot(features):
        walk(f, f["name"])
    return out


# ---------------------------------------------------------------------------
# independent recogniser of the nesting grammar
# ---------------------------------------------------------------------------
LEVEL_OF = {"feature": 1, "rule": 2, "scenario": 3, "step": 4}


def recognise(hooks):
    """Return None if the hook log is well nested, else an error message."""
    if not hooks:
        return None
    if hooks[0][0] != "before_all":
        return "first hook is %r, not before_all" % (hooks[0],)
    if hooks[-1][0] != "after_all":
        return "last hook is %r, not after_all" % (hooks[-1],)
    stack = []      # frames: dict(kind, name, tags, state: pending|open|closing, rest)
    for idx, (name, ident) in enumerate(hooks[1:-1], 1):
        top = stack[-1] if stack else None
        if top is not None and top["state"] == "closing" and not top["rest"]:
            stack.pop()
            top = stack[-1] if stack else None
        if name in ("before_all", "after_all"):
            return "#%d %s in the middle of the run" % (idx, name)
        if name == "before_tag":
            if top is not None and top["state"] == "closing":
                return "#%d before_tag(%s) while after_tag(%s) of %s %s is still due" % (
                    idx, ident, top["rest"][0], top["kind"], top["name"])
            if top is None or top["state"] != "pending":
                stack.append({"kind": None, "name": None, "tags": [ident], "state": "pending"})
            else:
                top["tags"].append(ident)
        elif name == "after_tag":
            if top is None or top["state"] != "closing" or not top["rest"]:
                return "#%d after_tag(%s) without an element being closed" % (idx, ident)
            if top["rest"][0] != ident:
                return "#%d after_tag(%s) but expected after_tag(%s)" % (idx, ident, top["rest"][0])
            top["rest"].pop(0)
        elif name.startswith("before_"):
            kind = name[len("before_"):]
            if top is not None and top["state"] == "closing":
                return "#%d %s(%s) while after_tag(%s) is still due" % (idx, name, ident, top["rest"][0])
            if top is None or top["state"] != "pending":
                stack.append({"kind": None, "name": None, "tags": [], "state": "pending"})
                top = stack[-1]
            top.update(kind=kind, name=ident, state="open")
            outer = [f for f in stack[:-1]]
            if any(f["state"] != "open" for f in outer):
                return "#%d %s(%s) inside an element that is not open" % (idx, name, ident)
            if outer and LEVEL_OF[outer[-1]["kind"]] >= LEVEL_OF[kind]:
                return "#%d %s %s nested inside %s %s" % (idx, kind, ident, outer[-1]["kind"], outer[-1]["name"])
        elif name.startswith("after_"):
            kind = name[len("after_"):]
            if top is None or top["state"] != "open" or top["kind"] != kind or top["name"] != ident:
                return "#%d %s(%s) does not close the innermost open element %r" % (
                    idx, name, ident, (top or {}).get("kind") and (top["kind"], top["name"], top["state"]))
            top["state"] = "closing"
            top["rest"] = list(top["tags"])
        else:
            return "#%d unknown hook %s" % (idx, name)
    if stack and stack[-1]["state"] == "closing" and not stack[-1]["rest"]:
        stack.pop()
    if stack:
        f = stack[-1]
        return "run ends with %s %s still in state %s" % (f["kind"], f["name"], f["state"])
    return None


# ---------------------------------------------------------------------------
def check_environment_file(case):
    """The standard Runner loads features/environment.py: every callable named like a hook is a hook, however it was
    made (def, functools.partial, bound method, callable instance); the hook log and the verdict are those of the
    reference model."""
    from .. import disk
    res = CaseResult()
    prog = runcheck.resolve_faults(case["program"])
    normalize(prog)
    prog["hook_style"] = case["hook_style"]
    if case.get("omit"):
        prog["omit_hooks"] = list(case["omit"])
    ref = refmodel.simulate(prog)
    if case.get("earlier_project"):
        # history within one process (behave driven as a library): ANOTHER project with a complete environment file ran
        # before; its hooks are none of this run's business
        other = {"features": [{"tags": ["a"], "items": [{"k": "s", "tags": ["b"], "steps": [{"kw": "Given", "o": "pass"}]}]}],
                 "cfg": {}}
        normalize(other)
        proj0 = disk.Project(other)
        try:
            disk.run_inproc(proj0, ["-f", "null", "--no-summary", "features"], other)
        finally:
            proj0.close()
        res.label("environment-file:another-project-ran-before")
    proj = disk.Project(prog)
    try:
        argv = disk.cli_args(prog.get("cfg") or {}) + ["-f", "null", "--no-summary", "features"]
        run = disk.run_inproc(proj, argv, prog)
    finally:
        proj.close()
    stale = [n["hook"] for n in (getattr(run, "notes", None) or []) if n.get("kind") == "stale-hook"]
    if stale:
        res.fail("C12.environment-file.foreign-hook-called", "hook functions of an earlier run's environment file were "
                 "called in this run: %s (this environment defines no %s)" % (sorted(set(stale)), case.get("omit")))
    res.nontrivial = len(ref.hooks) > 6
    res.label("environment-file", "environment-file:hooks-are-" + (case["hook_style"] or "functions"))
    if run.escaped is not None:
        if not (isinstance(run.escaped, KeyboardInterrupt)):
            res.fail("C12.environment-file.escape", "Runner.run() raised %r" % (run.escaped,))
        return res
    runcheck.check_hooks(res, "C12.environment-file", ref, run)
    runcheck.check_verdict(res, "C12.environment-file.verdict", ref, run)
    return res


def check(case):
    if case.get("kind") == "environment-file":
        return check_environment_file(case)
    res = CaseResult()
    prog = copy.deepcopy(case["program"])
    normalize(prog)
    prog.pop("cleanups", None)
    faults = [[int(k), e] for k, e in case.get("faults", [])]
    base_ref, base_status, base_escaped, base_hooks = baseline_for(prog)
    n = len(base_ref.hooks)
    res.evals = 1
    if base_escaped is not None:
        res.fail("C12.escape", "exception escaped the fault-free run(): %r" % (base_escaped,))
        return res
    if not faults:
        # fault-free: grammar + exact log (hooks not called for skipped elements nor in dry-run)
        err = recognise(base_hooks) if not prog.get("omit_hooks") else None
        if err:
            res.fail("C12.nesting", err)
        if prog.get("omit_hooks"):
            # the environment defines only some hook functions: those are called exactly as in a full environment
            res.label("partial-environment")
            if "before_tag" in prog["omit_hooks"] and "after_tag" not in prog["omit_hooks"]:
                res.label("partial-environment:after_tag-without-before_tag")
        ref = base_ref
        run = run_program(copy.deepcopy(prog))
        runcheck.check_hooks(res, "C12", ref, run)
        res.label("fault-free")
        if (prog.get("cfg") or {}).get("continue_after_failed"):
            res.label("continue-after-failed-step")
        if (prog.get("cfg") or {}).get("dry_run"):
            res.label("dry-run")
            if run.hooks:
                res.fail("C12.dry-run-hooks", "hooks called in dry-run: %r" % (run.hooks[:4],))
        res.nontrivial = len(run.hooks) > 6
        return res
    faults = [[k, e] for k, e in faults if k < n]
    if not faults:
        res.label("fault-not-placeable")
        return res
    if any(e in ("skip", "skip_mark") for _k, e in faults):
        # run-time exclusion by a before-hook (element.skip()): no hook error at all; hooks are
        # not called for the skipped elements below it, the after-hooks of the element still run
        prog["hook_faults"] = faults
        ref = refmodel.simulate(prog)
        run = run_program(prog)
        if run.escaped is not None:
            res.fail("C12.escape", "exception escaped run(): %r" % (run.escaped,))
            return res
        err = recognise(list(map(tuple, run.hooks))) if not prog.get("omit_hooks") else None
        if err:
            res.fail("C12.nesting", err)
        runcheck.check_hooks(res, "C12.skip", ref, run)
        runcheck.check_calls(res, "C12.skip", ref, run)
        runcheck.check_step_statuses(res, "C12.skip", ref, run)
        runcheck.check_verdict(res, "C12.skip.verdict", ref, run)
        if ref.skipped_by_hook:
            res.label("skip-in-hook:" + sorted(ref.skipped_by_hook)[0][0])
            res.nontrivial = True
        if len(faults) > 1:
            res.label("raise-then-skip")
        if any(e == "skip_mark" for _k, e in faults):
            res.label("skip-via-mark_skipped")
        return res
    prog["hook_faults"] = faults
    ref = refmodel.simulate(prog)
    run = run_program(prog)
    # (a) nothing escapes
    if run.escaped is not None:
        res.fail("C12.escape", "exception escaped run(): %r" % (run.escaped,))
        return res
    # (b) the run fails
    if not run.failed:
        res.fail("C12.verdict", "a hook raised but the run reports success")
    # (c) nesting / pairing
    err = recognise(list(map(tuple, run.hooks))) if not prog.get("omit_hooks") else None
    if err:
        res.fail("C12.nesting", err)
    runcheck.check_hooks(res, "C12", ref, run)
    # (d) exactly the element concerned carries hook-error
    actual_he = set()
    from behave.model import Rule
    for f in run.features:
        if f.hook_failed:
            actual_he.add(("feature", f.name))
        for item in f.run_items:
            if isinstance(item, Rule) and item.hook_failed:
                actual_he.add(("rule", item.name))
        for s in f.walk_scenarios():
            if s.hook_failed:
                actual_he.add(("scenario", s.name))
            for stp in s.all_steps:
                if stp.hook_failed:
                    actual_he.add(("step", s.name, runcheck_uid(stp.name)))
    expect_he = set(ref.hook_error_elems) | set(("step", a, b) for a, b in ref.hook_error_steps)
    if actual_he != expect_he:
        res.fail("C12.hook-error-element", "elements marked hook-failed: %s, expected %s (fault at %s)"
                 % (sorted(actual_he), sorted(expect_he),
                    [(ref.hooks[k][:2], ref.hook_owner[k]) for k, _ in faults if k < len(ref.hooks)]))
    status_now = flat_statuses(run.features)
    for elem in ref.hook_error_elems:
        key = elem
        if status_now.get(key) not in ("hook_error",):
            res.fail("C12.hook-error-status", "%s %s has status %s, expected hook_error"
                     % (elem[0], elem[1], status_now.get(key)))
    # (e) body suppressed, (ref) step calls and statuses
    runcheck.check_calls(res, "C12", ref, run)
    runcheck.check_step_statuses(res, "C12", ref, run)
    # (f) containment: elements outside the faulted elements' ancestry keep their baseline status
    touched = set()
    by_scen = {}
    chains = []         # ancestry chains of every element (also of empty containers)
    empty_scen = set()  # scenarios without steps: their status is outside the statement
    for feat in prog["features"]:
        chains.append([("feature", feat["name"])])
        for item in feat["items"]:
            if item["k"] == "r":
                chains.append([("feature", feat["name"]), ("rule", item["name"])])
        for inst in scenario_instances(feat):
            chain = [("feature", feat["name"])]
            if inst["rule"] is not None:
                chain.append(("rule", inst["rule"]["name"]))
            if inst["outline"] is not None:
                chain.append(("outline", feat["name"] + "/" + inst["outline"]["name"]))
            chain.append(("scenario", inst["name"]))
            by_scen[inst["name"]] = chain
            chains.append(chain)
            from ..program import all_steps_of
            if not all_steps_of(feat, inst):
                empty_scen.add(inst["name"])
    all_keys = set(status_now)
    aborted_all = False
    for k, _e in faults:
        if k >= len(ref.hooks):
            continue        # the log got shorter through an earlier fault: this one never fires
        kind_name = ref.hook_owner[k]
        hname = ref.hooks[k][0]
        if hname == "before_all":
            aborted_all = True
        if kind_name is None:
            continue
        okind, oname = kind_name
        if okind == "step":
            oname = oname[0]
            okind = "scenario"
        if okind == "scenario":
            touched.update(by_scen.get(oname, []))
        elif okind in ("rule", "feature"):
            for chain in chains:
                if (okind, oname) in chain:
                    touched.update(chain)
    untouched_names = set(ref.untouched)
    stop = bool((prog.get("cfg") or {}).get("stop"))
    for key in sorted(all_keys):
        if key in touched or (key[0] == "scenario" and key[1] in empty_scen):
            continue
        if aborted_all:
            if status_now[key] not in ("untested", "skipped") and key[0] == "scenario":
                res.fail("C12.containment.abort", "%s has status %s after a before_all failure" % (key, status_now[key]))
            continue
        if stop:
            # elements not reached because of --stop: scenarios must be untested; containers not compared
            if key[0] == "scenario" and key[1] in untouched_names:
                if status_now[key] != "untested":
                    res.fail("C12.containment.stop", "%s not reached (--stop) but has status %s" % (key, status_now[key]))
                continue
            if key[0] != "scenario":
                # a container holding a not-reached scenario legitimately differs from the baseline
                members = [c for c in by_scen.values() if key in c]
                if any(c[-1][1] in untouched_names for c in members):
                    continue
        if status_now[key] != base_status.get(key):
            res.fail("C12.containment", "%s has status %s but %s without the fault (fault at %s)"
                     % (key, status_now[key], base_status.get(key),
                    [ref.hooks[k][:2] for k, _ in faults if k < len(ref.hooks)]))
            break
    # -- classification
    names = [ref.hooks[k][0] for k, _ in faults if k < len(ref.hooks)]
    for nme in names:
        res.label("inject:" + nme)
    res.label("faults:%d" % len(faults))
    if prog.get("capture_hooks") and faults:
        res.label("fault-in-@capture-decorated-hook")
    if stop:
        res.label("stop")
    if any(e == "AssertionError" for _k, e in faults):
        res.label("AssertionError")
    if any(e.endswith("0") for _k, e in faults):
        res.label("exception-without-message")
    ninst = sum(1 for f in prog["features"] for _ in scenario_instances(f))
    res.nontrivial = ninst >= 2 and any(nme not in ("before_all", "after_all") for nme in names)
    return res


def runcheck_uid(step_name):
    from ..harness import _uid_of
    return _uid_of(step_name)


# ---------------------------------------------------------------------------
@st.composite
def program_for_hooks(draw):
    prog = draw(gen.program_st(faults=False, max_features=2, max_items=3, max_rules=2,
                               outcomes=["pass", "pass", "fail", "raise", "undefined", "skip", "pending"],
                               cfg=gen.cfg_st(flags=("stop",), p_tags=0.4)))
    # ensure tags so that tag hooks exist
    if draw(st.booleans()):
        for f in prog["features"]:
            if not f["tags"]:
                f["tags"] = [draw(st.sampled_from(gen.TAGS))]
            for it in f["items"]:
                if it["k"] == "r" and not it["tags"] and draw(st.booleans()):
                    it["tags"] = [draw(st.sampled_from(gen.TAGS))]
    if draw(st.integers(0, 4)) == 0:
        # environment functions decorated with behave.log_capture.capture (documented): a raising hook still
        # counts, whether or not a log record was captured
        prog["capture_hooks"] = draw(st.sampled_from(["plain", "error"]))
    outs = set(s["o"] for f in prog["features"] for lst in runcheck_step_lists(f) for s in lst)
    if outs <= set(["pass", "fail", "raise"]) and draw(st.integers(0, 1)) == 0:
        # the documented switch Scenario.continue_after_failed_step: a fault in a step hook stays within its step
        prog["cfg"]["continue_after_failed"] = True
    if draw(st.integers(0, 3)) == 0:
        prog["omit_hooks"] = draw(st.lists(st.sampled_from(["before_tag", "before_tag", "after_tag", "before_step", "after_step",
                                                             "before_rule", "after_rule", "before_feature", "after_feature",
                                                             "after_scenario"]), min_size=1, max_size=4, unique=True))
    normalize(prog)
    return prog


def explore(rec):
    quick = rec.tier == "quick"
    counter = {"n": 0}

    def family(prog):
        counter["n"] += 1
        rec.record({"program": prog, "faults": []}, sub="fault-free")
        base_ref = baseline_for(prog)[0]
        n = len(base_ref.hooks)
        # every fourth program: exceptions WITHOUT a message (bare `assert cond`, `raise AssertionError()`)
        excs = (["Exception"], ["Exception", "AssertionError"], ["AssertionError0"], ["Exception", "Exception0"])[counter["n"] % 4]
        for k in range(n):
            for e in excs:
                rec.record({"program": prog, "faults": [[k, e]]}, sub="every-hook-call")
        for k in range(n):
            if base_ref.hooks[k][0] in ("before_feature", "before_rule", "before_scenario"):
                rec.record({"program": prog, "faults": [[k, "skip" if counter["n"] % 3 else "skip_mark"]]},
                           sub="skip-in-before-hook")
                if n <= 14:
                    # an earlier hook raises AND the element is excluded at run time afterwards
                    for k1 in range(k):
                        rec.record({"program": prog, "faults": [[k1, "Exception"],
                                                               [k, "skip" if (k1 + counter["n"]) % 2 else "skip_mark"]]},
                                   sub="raise-then-skip(|H|<=14)")
        if n <= 14:
            for k1 in range(n):
                for k2 in range(k1 + 1, n):
                    rec.record({"program": prog, "faults": [[k1, "Exception"], [k2, "Exception"]]},
                               sub="all-pairs(|H|<=14)")
        elif not quick:
            step = max(1, n // 6)
            for k1 in range(0, n, step):
                for k2 in range(k1 + 1, n, step):
                    rec.record({"program": prog, "faults": [[k1, "Exception"], [k2, "AssertionError"]]},
                               sub="sampled-pairs")

    rec.hyp("programs", program_for_hooks(), 260 if quick else 6000, fn=family)
    rec.hyp("environment-file", st.builds(
        lambda p, style, k: {"kind": "environment-file", "program": dict(p, hook_faults=[[k, "Exception"]]) if k % 3 == 0 else p,
                             "hook_style": style, "earlier_project": k % 2 == 0,
                             "omit": [["before_tag", "after_tag"], ["before_step", "after_step"], ["after_scenario"],
                                      ["before_all", "after_all"], []][k % 5]},
        gen.program_st(faults=False, max_features=2, outcomes=["pass", "pass", "fail", "undefined"],
                       cfg=gen.cfg_st(flags=("stop",), p_tags=0.3)),
        st.sampled_from([None, "partial", "method", "callable"]), st.integers(0, 10000)), 240 if quick else 5000)
    rec.hyp("dry-run", gen.program_st(faults=False, max_features=2, cfg=st.just({"dry_run": True})).map(
        lambda p: {"program": p, "faults": []}), 200 if quick else 3000)


def required_labels(tier):
    return ["inject:" + h for h in ["before_all", "after_all", "before_feature", "after_feature", "before_rule",
                                    "after_rule", "before_scenario", "after_scenario", "before_step", "after_step",
                                    "before_tag", "after_tag"]] + ["faults:2", "stop", "AssertionError", "fault-free",
                                                                     "dry-run", "skip-in-hook:feature",
                                                                     "skip-in-hook:rule", "skip-in-hook:scenario",
                                                                     "fault-in-@capture-decorated-hook", "exception-without-message", "raise-then-skip", "skip-via-mark_skipped",
                                                                     "partial-environment:after_tag-without-before_tag", "continue-after-failed-step",
                                                                     "environment-file:hooks-are-partial", "environment-file:hooks-are-method",
                                                                     "environment-file:hooks-are-callable", "environment-file:hooks-are-functions",
                                                                     "environment-file:another-project-ran-before"]


KNOWN_PREDICATES = {}
RULE = RULE + " " + ('A quarter of the programs run with an environment that defines only some of the hook functions (e.g. after_tag without before_tag): the defined ones are called, and their faults counted, exactly as in a full environment.')
RULE = RULE + " " + ('Half of the programs whose steps only pass / fail / raise run with Scenario.continue_after_failed_step: a fault in a step hook stays within its step, the following steps and their hooks run.')
RULE = RULE + " " + ('A sample of programs runs through the standard Runner with a features/environment.py whose hooks are plain functions, functools.partial objects, bound methods or callable instances: same hook log and verdict.')
