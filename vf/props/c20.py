# -*- coding: utf-8 -*-
"""C20 -- Configuration precedence: command line over config file over defaults; userdata.

Every case builds a scratch HOME and a scratch working directory, writes 0..2 configuration
files (behave.ini / .behaverc / setup.cfg / tox.ini / pyproject.toml), constructs
``behave.configuration.Configuration(argv)`` in-process and compares its attributes with an own
model that is derived from docs/behave.rst (defaults, parameter types, couplings), from
docs/new_and_noteworthy_v1.2.5.rst (userdata) and from the executable specifications
features/runner.multiple_formatters.feature, features/configuration.default_paths.feature and
features/userdata.feature.
"""
from __future__ import annotations

import contextlib
import copy
import io
import itertools
import json
import os
import re
import shutil
import tempfile

from hypothesis import strategies as st

from ..core import CaseResult, HarnessError

# behave.configuration reads BEHAVE_COLOR at import time (default of --color); the documented
# default "auto" is only observable without it.
os.environ.pop("BEHAVE_COLOR", None)

ID = "C20"
LEVEL = "exploration"
RULE = ("Per case a scratch HOME and scratch cwd (separate, cwd nested below HOME, or identical): 0..2 configuration "
        "files (behave.ini/.behaverc/setup.cfg/tox.ini [behave], pyproject.toml [tool.behave]) in cwd and/or HOME "
        "assign a random subset of the documented parameters (booleans in every documented spelling, scalars, choices, "
        "multi-line sequences, paths/outfiles/format, [behave.userdata]); a random subset is also given on the command "
        "line (flags and their --no- twins, every short/long/= spelling, repeated append options, positional paths, -D). "
        "Configuration(argv) is built in-process and every attribute is compared with an own model: command line, else "
        "file, else documented default; documented couplings (--wip, --quiet, --junit, --steps-catalog, format/outfiles) "
        "are modelled, contradictory combinations are left open and counted. Complete enumerations: every boolean "
        "parameter x file{absent,true,false} x command line{absent,on,off} x {ini,toml}; every -D value over "
        "{a,',\",space,=} up to length 3 plus the documented -D schemas; sequences whose values start on a new line; "
        "the spellings of --color. Non-trivial = at least one option (or userdata name) set both in a file and on the "
        "command line with different values.")
ASSUMPTIONS = [
    "BEHAVE_COLOR and BEHAVE_STAGE are removed from the environment (they change the defaults of color/stage)",
    "several configuration files: options are set in exactly one file (format+outfiles always live in the same file) "
    "-- except a few simple scalars that may be set in the file in HOME and in the file in the working directory at "
    "once, where the working-directory (per-project) value is expected (docs/behave.rst lists the places in that "
    "order and calls them per-project and per-user settings); two files in the SAME directory never set the same "
    "option (their mutual order is OPEN); file userdata is only compared when there is one file "
    "(every file replaces the whole userdata dictionary): merging of files with each other is OPEN",
    "defaults that docs/behave.rst does not state are not compared (summary, junit_directory, runner); flags without a "
    "documented default are expected off; unset text options are expected None and unset sequences empty/None",
    "append options set in a file AND on the command line: format and outfiles are file entries followed by "
    "command-line entries (features/runner.multiple_formatters.feature: 'Command-line formatter/outfile extend behave "
    "configuration file args'); for name the docs are silent: either the command-line entries alone or file entries "
    "followed by command-line entries are accepted; positional paths replace file paths "
    "(features/configuration.default_paths.feature); --tags replaces file tags, which stay reachable via {config.tags}",
    "a forcing option (wip, quiet, steps_catalog) against an explicit contrary setting of the forced option at the same "
    "or a higher precedence level (e.g. --quiet --show-source, or quiet=true in the file and --show-source) is OPEN; "
    "junit forces stdout/stderr capture 'regardless' (docs) but log_capture under junit, color and default_format "
    "under steps_catalog, show_skipped under steps_catalog and color under wip are undocumented: OPEN; wip and junit "
    "together: stdout_capture OPEN",
    "under --wip only the implication 'selected => tagged wip' is checked for the tag expression",
    "missing outfiles of a file are '<format>.output' (feature spec); for a file in HOME the directory of such a filled "
    "name is not specified: HOME or cwd are accepted",
    "junit_directory is 'text' (docs: assigned as supplied), not resolved against the configuration file",
    "scalar options are given at most once on the command line; booleans are not given together with their twin",
    "file values avoid '%' (configparser interpolation) except logging_format/logging_datefmt (documented raw), "
    "leading/trailing blanks, blank lines inside sequences, non-ASCII text and quotes in [behave.userdata]",
    "tag expressions come from a fixed pool per dialect; {config.tags} is only used when the file tags are parsed "
    "as tag-expressions v2",
    "-D: names are [A-Za-z0-9_.]+; when the whole NAME=VALUE text is quoted the value carries no further bare quotes; "
    "getter oracle: int/float literals and the documented truth words convert, texts that are clearly no number / no "
    "truth word raise ValueError, anything in between (case variants, blanks, underscores, nan/inf) is OPEN",
    "a bare '--color' (optional value, nargs='?') only has to be accepted; which value it selects is OPEN",
    "SystemExit (argparse rejecting the command line) is a harness error, never a violation",
]
SIMPLIFY = {"layout": "sep", "where": "cwd"}
WATCHDOG_S = {"quick": 900, "thorough": 4 * 3600}


class _Open(object):
    def __repr__(self):
        return "OPEN"


OPEN = _Open()
MISSING = "<attribute missing>"

# ---------------------------------------------------------------------------
# documented schema (docs/behave.rst)
# ---------------------------------------------------------------------------
# dest: (positive flags, negative flags, documented default | OPEN)
BOOLS = {
    "dry_run": (["-d", "--dry-run"], [], False),
    "junit": (["--junit"], ["--no-junit"], False),
    "show_skipped": (["--show-skipped"], ["--no-skipped"], True),      # "This is the default behaviour"
    "show_snippets": (["--snippets"], ["--no-snippets"], True),
    "show_multiline": (["--multiline"], ["--no-multiline"], True),
    "stdout_capture": (["--capture"], ["--no-capture"], True),
    "stderr_capture": (["--capture-stderr"], ["--no-capture-stderr"], True),
    "log_capture": (["--logcapture"], ["--no-logcapture"], True),
    "logging_clear_handlers": (["--logging-clear-handlers"], [], False),
    "summary": (["--summary"], ["--no-summary"], OPEN),
    "quiet": (["-q", "--quiet"], [], False),
    "show_source": (["--show-source"], ["--no-source"], True),
    "stop": (["--stop"], [], False),
    "show_timings": (["--show-timings"], ["-T", "--no-timings"], True),
    "verbose": (["-v", "--verbose"], [], False),
    "wip": (["-w", "--wip"], [], False),
    "steps_catalog": (["--steps-catalog"], [], False),
}
FORCING = ("wip", "quiet", "junit", "steps_catalog", "verbose")

# dest: (command-line spellings [(flag, joined_with_equals)], documented default | OPEN)
SCALARS = {
    "color": ([("--color", True), ("--color", False)], "auto"),
    "jobs": ([("-j", False), ("--jobs", False), ("--jobs", True), ("--parallel", False)], 1),
    "junit_directory": ([("--junit-directory", False), ("--junit-directory", True)], OPEN),
    "default_format": ([], "pretty"),
    "scenario_outline_annotation_schema": ([], u"{name} -- @{row.id} {examples.name}"),
    "logging_level": ([("--logging-level", False), ("--logging-level", True)], "INFO"),
    "logging_format": ([("--logging-format", False), ("--logging-format", True)],
                       "%(levelname)s:%(name)s:%(message)s"),
    "logging_datefmt": ([("--logging-datefmt", False), ("--logging-datefmt", True)], None),
    "logging_filter": ([("--logging-filter", True), ("--logging-filter", False)], None),
    "runner": ([("-r", False), ("--runner", False), ("--runner", True)], OPEN),
    "stage": ([("--stage", False), ("--stage", True)], None),
    "lang": ([("--lang", False), ("--lang", True)], None),
    "include_re": ([("-i", False), ("--include", False), ("--include", True)], None),
    "exclude_re": ([("-e", False), ("--exclude", False), ("--exclude", True)], None),
    "tag_expression_protocol": ([], "auto_detect"),
}
LISTS = {
    "format": [("-f", False), ("--format", False), ("--format", True)],
    "outfiles": [("-o", False), ("--outfile", False), ("--outfile", True)],
    "name": [("-n", False), ("--name", False), ("--name", True)],
    "tags": [("-t", False), ("--tags", False), ("--tags", True)],
    "default_tags": [],
    "paths": [],            # positional on the command line
}
DEFINE_FORMS = [("-D", False), ("--define", False), ("--define", True)]
NO_COLOR_FLAGS = ["-C", "--no-color"]
COLOR_CHOICES = ["auto", "on", "off", "always", "never"]
COLOR_OFF = ("off", "never")
LOG_LEVELS = {"DEBUG": 10, "INFO": 20, "WARNING": 30, "ERROR": 40, "CRITICAL": 50}
TRUE_WORDS = ["true", "yes", "on", "1"]
FALSE_WORDS = ["false", "no", "off", "0"]
INI_NAMES = ["behave.ini", ".behaverc", "setup.cfg", "tox.ini"]
TOML_NAME = "pyproject.toml"
LAYOUTS = ("sep", "nested", "same")
RAW_INI = ("logging_format", "logging_datefmt")

POOLS = {
    "color": COLOR_CHOICES,
    "junit_directory": ["reports/junit", "out", "build/test-results", "/tmp/c20-abs/junit", "../up/reports",
                        "my reports"],
    "default_format": ["plain", "progress", "pretty", "json", "progress3", "null"],
    "scenario_outline_annotation_schema": [u"{name} -- @{row.id}", u"{name} [{examples.name}:{row.index}]",
                                           u"{name} -*- {row.id}", u"<{row.id}> {name}", u"{name} 100% (@{row.id})"],
    "logging_level": sorted(LOG_LEVELS),
    "logging_format": ["%(levelname)s:%(message)s", "%(asctime)s %(name)s %(message)s", "LOG %(message)s",
                       "plain text"],
    "logging_datefmt": ["%H:%M:%S", "%Y-%m-%d", "%d.%m.%Y %H:%M"],
    "logging_filter": ["foo", "foo,bar,baz", "-suds", "foo,-bar"],
    "runner": ["behave.runner:Runner", "my.pkg:MyRunner", "other.module:Runner2"],
    "stage": ["develop", "testlab", "product", "s1"],
    "lang": ["de", "fr", "en", "pt-br"],
    "include_re": ["features/.*", "alice", r".*\.feature$", "a|b"],
    "exclude_re": ["wip_.*", "bob", "(old|legacy)/", "x+"],
    "tag_expression_protocol": ["v1", "v2", "auto_detect"],
    "format": ["plain", "pretty", "progress", "progress2", "progress3", "json", "json.pretty", "null", "rerun",
               "steps", "steps.doc", "steps.usage", "tags", "tags.location"],
    "outfiles": ["out/plain.txt", "report.json", "logs/run/out.log", "../shared/o.txt", "/tmp/c20-abs/result.out",
                 "./dot/rel.txt", "a b.txt"],
    "paths": ["features", "features/alice.feature", "more.features/charly.feature", "../other/features",
              "/tmp/c20-abs/features", "tests/bdd", "features/bob.feature:10"],
    # (" #" / " ;" inside a value are part of the value: ini files know full-line comments only)
    "name": ["Alice", "Bob.*", "^Scenario A$", "login", "check out", "Issue #12", "Backup ; then"],
}

# -- tag expressions: text -> own AST (vf.tagref shape); ["cfg"] stands for {config.tags}
_T = lambda n: ["tag", n]       # noqa: E731
TAGS_BOTH = {"@foo": _T("foo"), "bar": _T("bar"), "@zap": _T("zap")}
TAGS_V1 = dict(TAGS_BOTH, **{
    "-@zap": ["not", _T("zap")], "~@foo": ["not", _T("foo")], "@foo,@bar": ["or", _T("foo"), _T("bar")],
    "foo,-zap": ["or", _T("foo"), ["not", _T("zap")]],
})
TAGS_V2 = dict(TAGS_BOTH, **{
    "not @zap": ["not", _T("zap")], "@foo or @bar": ["or", _T("foo"), _T("bar")],
    "@foo and not @bar": ["and", _T("foo"), ["not", _T("bar")]],
    "(@foo or @zap) and not @bar": ["and", ["or", _T("foo"), _T("zap")], ["not", _T("bar")]],
    "not (@foo or @bar)": ["not", ["or", _T("foo"), _T("bar")]],
})
TAGS_PH = {
    "{config.tags}": ["cfg"], "{config.tags} and @foo": ["and", ["cfg"], _T("foo")],
    "(@foo or @bar) and {config.tags}": ["and", ["or", _T("foo"), _T("bar")], ["cfg"]],
    "@zap or {config.tags}": ["or", _T("zap"), ["cfg"]],
}
V2_KEYWORDS = ("and", "or", "not", "(", ")")
TAG_UNIVERSE = ["foo", "bar", "zap", "wip"]
TAG_SETS = [list(c) for n in range(5) for c in itertools.combinations(TAG_UNIVERSE, n)]

UD_NAMES = ["browser", "server", "port", "DEBUG", "Key", "key", "my.config.x", "flag_1"]
UD_FILE_VALUES = ["firefox", "asterix", "8080", "true", "off", "3.14", "some text", "a=b", "1e3", "yes", "-7", "0",
                  "x,y,z", "maybe", "2", "007", "-08", "0x10", "+3", "1_0", "see #42", "Alice ; Bob"]
UD_CLI_VALUES = UD_FILE_VALUES + ["", "50%", "no", "1", "on", "false", "+3", "007", "0x10", "4.5.6", "'", '"', "''",
                                  "it's", 'say "hi"', "12abc", "-", "a b  c"]
GETTERS = ["getint", "getfloat", "getbool", "as:int", "as:float", "as:csv", "as:percent"]
GETTER_DEFAULTS = {"getint": 0, "getfloat": 0.0, "getbool": False}
DEFINE_NAME_RE = re.compile(r"^[A-Za-z0-9_.]+$")
ERR = "<ValueError>"


# ---------------------------------------------------------------------------
# reference semantics
# ---------------------------------------------------------------------------
def ref_unquote(text):
    """One PAIR of surrounding quotes is removed (a pair needs two characters)."""
    if len(text) >= 2 and text[0] == text[-1] and text[0] in "'\"":
        return text[1:-1]
    return text


def ref_parse_define(text):
    """behave.userdata.parse_user_define docstring: NAME=VALUE | NAME (value "true") | quoted pair |
    quoted value | blank padded; surrounding quotes are stripped."""
    text = text.strip()
    if "=" not in text:
        return text, "true"
    text = ref_unquote(text)
    name, value = text.split("=", 1)
    return name.strip(), ref_unquote(value.strip())


def define_value_is_lone_quote(text):
    text = text.strip()
    if "=" not in text:
        return False
    value = ref_unquote(text).split("=", 1)[1].strip()
    return value in ("'", '"')


_INT_RE = re.compile(r"^[+-]?[0-9]+$")
_FLOAT_RE = re.compile(r"^[+-]?([0-9]+\.?[0-9]*|\.[0-9]+)([eE][+-]?[0-9]+)?$")


def conv_int(text):
    if _INT_RE.match(text):
        return int(text)
    if text == "" or re.search(r"[^0-9+\-_ \t\n]", text):
        return ERR
    return OPEN


def conv_float(text):
    if _FLOAT_RE.match(text):
        return float(text)
    core = text.strip().lower().lstrip("+-")
    if core in ("nan", "inf", "infinity"):
        return OPEN
    if text == "" or re.search(r"[^0-9+\-_.eE \t\n]", text):
        return ERR
    return OPEN


def conv_bool(text):
    if text in TRUE_WORDS:
        return True
    if text in FALSE_WORDS:
        return False
    if text.strip().lower() in TRUE_WORDS + FALSE_WORDS:
        return OPEN         # case / padding variants: not documented
    return ERR


def csv_convert(text):
    """User-supplied converter for UserData.getas(): comma separated list."""
    if not text:
        raise ValueError("empty list")
    return [part.strip() for part in text.split(",")]


def percent_convert(text):
    """User-supplied converter for UserData.getas(): "50%" -> 0.5"""
    if not text.endswith("%") or not _INT_RE.match(text[:-1]):
        raise ValueError("no percentage: %r" % (text,))
    return int(text[:-1]) / 100.0


def conv_own(fn):
    def convert(text):
        try:
            return fn(text)
        except ValueError:
            return ERR
    return convert


GETTER_ORACLE = {"getint": conv_int, "getfloat": conv_float, "getbool": conv_bool, "as:int": conv_int,
                 "as:float": conv_float, "as:csv": conv_own(csv_convert), "as:percent": conv_own(percent_convert)}


def tag_eval(ast, tags, cfg_ast):
    op = ast[0]
    if op == "true":
        return True
    if op == "cfg":
        return tag_eval(cfg_ast, tags, cfg_ast)
    if op == "tag":
        return ast[1] in tags
    if op == "not":
        return not tag_eval(ast[1], tags, cfg_ast)
    if op == "and":
        return all(tag_eval(x, tags, cfg_ast) for x in ast[1:])
    if op == "or":
        return any(tag_eval(x, tags, cfg_ast) for x in ast[1:])
    raise HarnessError("bad tag AST %r" % (ast,))


def tag_ast_of(entries):
    asts = []
    for text in entries:
        for pool in (TAGS_V2, TAGS_V1, TAGS_PH):
            if text in pool:
                asts.append(pool[text])
                break
        else:
            raise HarnessError("unknown tag expression %r" % (text,))
    if not asts:
        return ["true"]
    return ["and"] + asts


def has_v2_keyword(text):
    words = text.replace("(", " ( ").replace(")", " ) ").split()
    return any(w in V2_KEYWORDS for w in words)


def tag_dialects(entries, allow_placeholder):
    """Which dialects can express this list: subset of {"v1", "v2"} (never mixed lists)."""
    out = set()
    if all(t in TAGS_V1 for t in entries):
        out.add("v1")
    if all(t in TAGS_V2 or (allow_placeholder and t in TAGS_PH) for t in entries):
        out.add("v2")
    return out


# ---------------------------------------------------------------------------
# case access / validation
# ---------------------------------------------------------------------------
# options that may be assigned in a per-user file (home) AND in a per-project file (cwd): the project's value counts
DUP_DESTS = ("stage", "lang", "logging_level", "logging_filter", "jobs", "junit_directory", "runner")


def file_values(case):
    vals = {}
    for index, f in enumerate(case["files"]):
        for o in f["opts"]:
            if o["d"] in vals and case["files"][vals[o["d"]][1]]["where"] == "cwd":
                continue        # the file in the working directory (per-project) wins over the one in HOME (per-user)
            vals[o["d"]] = (o["v"], index)
    return vals


def cli_values(case):
    """dest -> value (scalars/bools) or list of values in command-line order (append options)."""
    vals = {}
    for item in case["cli"]:
        d = item["d"]
        if d == "define":
            continue
        if d in LISTS and d != "paths":
            vals.setdefault(d, []).append(item["v"])
        else:
            vals[d] = item["v"]
    return vals


def toml_available():
    import behave.configuration as bc
    return bool(bc._TOML_AVAILABLE)


def _req(cond, msg):
    if not cond:
        raise HarnessError("C20: invalid case: %s" % msg)


# values that are unusable where they stand but never come to use because the command line overrides them
BROKEN_RE = ["*.feature", "(unbalanced", "[a-"]
UNRESOLVABLE_FORMAT = ["allure", "no.such.module:Formatter"]


def _value_ok(d, v, in_file):
    if in_file and d in ("include_re", "exclude_re") and v in BROKEN_RE:
        return True
    if in_file and d == "default_format" and v in UNRESOLVABLE_FORMAT:
        return True
    if d in BOOLS:
        return isinstance(v, bool)
    if d == "jobs":
        return isinstance(v, int) and not isinstance(v, bool) and 0 <= v <= 99
    if d == "color" and not in_file:
        return v in COLOR_CHOICES or v is None or v == "?bare"
    if d in SCALARS:
        return isinstance(v, str) and v in POOLS[d]
    if d in ("tags", "default_tags"):
        return True     # checked by the tag rules
    if d in LISTS:
        return isinstance(v, str) and v in POOLS[d]
    return False


def validate(case):
    _req(isinstance(case, dict) and case.get("kind") == "cfg", "kind")
    _req(case.get("layout") in LAYOUTS, "layout")
    files = case.get("files")
    _req(isinstance(files, list) and len(files) <= 2, "files")
    seen_files = set()
    seen = {}
    for index, f in enumerate(files):
        _req(isinstance(f, dict) and f.get("where") in ("cwd", "home"), "file.where")
        _req(f.get("name") in INI_NAMES + [TOML_NAME], "file.name")
        key = f["name"] if case["layout"] == "same" else (f["where"], f["name"])
        _req(key not in seen_files, "duplicate file")
        seen_files.add(key)
        _req(isinstance(f.get("opts"), list) and isinstance(f.get("ud"), list), "file.opts/ud")
        for o in f["opts"]:
            _req(isinstance(o, dict) and "d" in o and "v" in o, "file option shape")
            d, v = o["d"], o["v"]
            _req(d in BOOLS or d in SCALARS or d in LISTS, "file option %r" % (d,))
            if d in seen:
                other = files[seen[d]]
                _req(d in DUP_DESTS and case["layout"] != "same" and other["where"] != f["where"],
                     "option %s set twice in files" % d)
            seen[d] = index
            if d in LISTS:
                _req(isinstance(v, list) and v and all(isinstance(x, str) for x in v), "list value of %s" % d)
                _req(all(_value_ok(d, x, True) for x in v), "list entry of %s" % d)
            else:
                _req(_value_ok(d, v, True), "value of %s" % d)
        for pair in f["ud"]:
            _req(isinstance(pair, list) and len(pair) == 2 and pair[0] in UD_NAMES and pair[1] in UD_FILE_VALUES,
                 "file userdata")
        _req(len(set(p[0] for p in f["ud"])) == len(f["ud"]), "duplicate file userdata name")
    fv = file_values(case)
    if "format" in fv and "outfiles" in fv:
        _req(fv["format"][1] == fv["outfiles"][1], "format/outfiles in different files")
        _req(len(fv["outfiles"][0]) <= len(fv["format"][0]), "more outfiles than formats in file")
    cli = case.get("cli")
    _req(isinstance(cli, list), "cli")
    once = set()
    for item in cli:
        _req(isinstance(item, dict) and "d" in item and "v" in item and isinstance(item.get("f", 0), int),
             "cli item shape")
        d, v = item["d"], item["v"]
        if d == "define":
            _req(isinstance(v, str), "define text")
            name = ref_parse_define(v)[0]
            _req(bool(DEFINE_NAME_RE.match(name)), "define name %r" % (name,))
            continue
        _req(d in BOOLS or (d in SCALARS and SCALARS[d][0]) or d in ("format", "outfiles", "name", "tags", "paths"),
             "cli option %r" % (d,))
        if d in ("format", "outfiles", "name", "tags"):
            _req(isinstance(v, str) and (d == "tags" or _value_ok(d, v, False)), "cli entry of %s" % d)
            continue
        _req(d not in once, "%s given twice on the command line" % d)
        once.add(d)
        if d == "paths":
            _req(isinstance(v, list) and v and all(x in POOLS["paths"] for x in v), "positional paths")
        elif d in BOOLS:
            _req(isinstance(v, bool) and (v or BOOLS[d][1]), "flag %s" % d)
        else:
            _req(_value_ok(d, v, False), "cli value of %s" % d)
    for d in ("include_re", "exclude_re"):
        if d in fv and fv[d][0] in BROKEN_RE:
            _req(any(item["d"] == d for item in cli), "unusable %s in a file without a command-line override" % d)
    if "default_format" in fv and fv["default_format"][0] in UNRESOLVABLE_FORMAT:
        _req(any(item["d"] == "format" for item in cli), "unresolvable default_format without -f on the command line")
    # -- tags: dialect consistency
    proto = fv.get("tag_expression_protocol", ("auto_detect", 0))[0]
    cv = cli_values(case)
    cfg_list = config_tag_list(fv)
    for entries, is_cli in ((fv.get("tags", ([], 0))[0], False), (fv.get("default_tags", ([], 0))[0], False),
                            (cv.get("tags", []), True)):
        if not entries:
            continue
        dialects = tag_dialects(entries, is_cli)
        _req(bool(dialects), "tag list %r mixes dialects" % (entries,))
        if proto in ("v1", "v2"):
            _req(proto in dialects, "tag list %r not valid for protocol %s" % (entries, proto))
        if is_cli and any(t in TAGS_PH for t in entries):
            _req(bool(cfg_list), "{config.tags} without file tags")
            v2_cfg = (proto == "v2" or any(has_v2_keyword(t) for t in cfg_list)
                      or (len(cfg_list) == 1 and cfg_list[0] in TAGS_BOTH))
            _req(proto != "v1" and v2_cfg and "v2" in tag_dialects(cfg_list, False),
                 "{config.tags} with v1 file tags")
    for g in case.get("gets", []):
        _req(isinstance(g, dict) and g.get("g") in GETTERS and isinstance(g.get("n"), str), "getter")
        _req(g.get("dk") in ("omit", "none", "int", "float", "str", "bool"), "getter default kind")
    return True


def valid_case(case):
    try:
        return validate(case)
    except Exception:
        return False


def config_tag_list(fv):
    return list(fv.get("tags", ([], 0))[0] or fv.get("default_tags", ([], 0))[0] or [])


# ---------------------------------------------------------------------------
# rendering: files and command line
# ---------------------------------------------------------------------------
EARLIER_INI = u"""[behave]
name = Earlier
    Other
paths = earlier_features
tags = @earlier
tag_expression_protocol = v1
scenario_outline_annotation_schema = {name} [{row.index}]
show_timings = false
show_skipped = false
summary = false
stage = earlier
junit = true
junit_directory = earlier_reports
default_format = progress
logging_level = ERROR
stdout_capture = false

[behave.userdata]
browser = earlier-browser
earlier.key = 1
"""
EARLIER_TOML = u"""[tool.behave]
name = ["Earlier"]
tag_expression_protocol = "v1"
scenario_outline_annotation_schema = "{name} [{row.index}]"
show_timings = false
stage = "earlier"

[tool.behave.userdata]
browser = "earlier-browser"
"""


def render_ini(f):
    style = f.get("st", 0)
    eq = "=" if style & 1 else " = "
    indent = "\t" if style & 2 else "    "
    lines = []
    if f.get("noise"):
        lines += ["# generated by the C20 check", "[tox]", "envlist = py39, py312", "skip_missing_interpreters = true",
                  "", "[metadata]", "name = sample", ""]
        if f["noise"] == 2:
            # a LONG shared file (tox.ini / setup.cfg of a big project): the behave section starts after some
            # hundred lines / several kilobytes of other tools' sections
            for i in range(70):
                lines += ["[testenv:py3%d-variant%d]" % (i % 13, i), "description = run the unit tests, variant %d" % i,
                          "deps = pytest>=7.%d" % i, "commands = pytest {posargs} tests/unit/part%d" % i, ""]
    if f["opts"] or not f.get("noise"):
        lines.append("[behave]")
    for o in f["opts"]:
        d, v = o["d"], o["v"]
        if isinstance(v, bool):
            words = TRUE_WORDS if v else FALSE_WORDS
            lines.append(d + eq + words[o.get("w", 0) % len(words)])
        elif isinstance(v, list):
            if o.get("lead"):
                lines.append(d + eq.rstrip())
                lines += [indent + x for x in v]
            else:
                lines.append(d + eq + v[0])
                lines += [indent + x for x in v[1:]]
        else:
            text = str(v)
            if d not in RAW_INI:
                text = text.replace("%", "%%")          # ini interpolation is on: a literal per cent sign is doubled
            if o.get("interp") and d not in RAW_INI:
                # the value is written once under a helper key and referred to with %(key)s
                lines.append("vf_%s%s%s" % (d, eq, text))
                text = "%%(vf_%s)s" % d
            lines.append(d + eq + text)
        if style & 4:
            lines.append("# -- a comment line")
    if f["ud"]:
        lines += ["", "[behave.userdata]"]
        for name, value in f["ud"]:
            lines.append(name + eq + value)
    if f.get("noise"):
        lines += ["", "[flake8]", "max-line-length = 100", "exclude = .git,build"]
    return "\n".join(lines) + "\n"


def render_toml(f):
    lines = []
    if f.get("noise"):
        lines += ["# generated by the C20 check", "[project]", 'name = "sample"', 'version = "1.0"', "",
                  "[tool.other]", "jobs = 99", 'format = ["nonsense"]', ""]
        if f["noise"] == 2:
            for i in range(70):
                lines += ["[tool.other.env%d]" % i, 'description = "run the unit tests, variant %d"' % i,
                          'deps = ["pytest>=7.%d"]' % i, 'commands = "pytest tests/unit/part%d"' % i, ""]
    if f["opts"] or f["ud"] or not f.get("noise"):
        lines.append("[tool.behave]")
    for o in f["opts"]:
        lines.append("%s = %s" % (o["d"], json.dumps(o["v"])))
    if f["ud"]:
        lines += ["", "[tool.behave.userdata]"]
        for name, value in f["ud"]:
            lines.append("%s = %s" % (json.dumps(name), json.dumps(value)))
    return "\n".join(lines) + "\n"


def _spell(forms, form, value):
    value = str(value)
    flag, joined = forms[form % len(forms)]
    if value.startswith("-") or value == "":
        joined_forms = [x for x in forms if x[1]]
        flag, joined = joined_forms[0]
    if joined:
        return [flag + "=" + value]
    return [flag, value]


def render_argv(case):
    argv = []
    positional = []
    for item in case["cli"]:
        d, v, form = item["d"], item["v"], item.get("f", 0)
        if d == "define":
            argv += _spell(DEFINE_FORMS, form, v)
        elif d == "paths":
            positional = list(v)
        elif d in BOOLS:
            flags = BOOLS[d][0] if v else BOOLS[d][1]
            argv.append(flags[form % len(flags)])
        elif d == "color" and v is None:
            argv.append(NO_COLOR_FLAGS[form % 2])
        elif d == "color" and v == "?bare":
            argv.append("--color")
        elif d in SCALARS:
            argv += _spell(SCALARS[d][0], form, v)
        else:
            argv += _spell(LISTS[d], form, v)
    return argv + positional


# ---------------------------------------------------------------------------
# the model: what the documentation promises
# ---------------------------------------------------------------------------
class Expect(object):
    def __init__(self):
        self.values = {}        # dest -> (expected | OPEN, clause, why)
        self.opens = []

    def put(self, dest, value, clause, why):
        self.values[dest] = (value, clause, why)
        if value is OPEN:
            self.opens.append("%s(%s)" % (dest, why))


def model(case):
    fv = file_values(case)
    cv = cli_values(case)
    exp = Expect()

    def level(d):
        return 2 if d in cv else (1 if d in fv else 0)

    def base(d, default):
        if d in cv:
            return cv[d], "cli-over-file" if d in fv else "cli-over-default"
        if d in fv:
            return fv[d][0], "file-over-default"
        return default, "default"

    # -- plain precedence
    for d, (_pos, _neg, default) in BOOLS.items():
        value, src = base(d, default)
        exp.put(d, value, "C20." + src, src)
    for d, (_forms, default) in SCALARS.items():
        value, src = base(d, default)
        if d == "color" and d in cv and cv[d] is None:
            value = "<off>"
        if d == "color" and d in cv and cv[d] == "?bare":
            value = OPEN
        exp.put(d, value, "C20." + src, src if value is not OPEN else "bare --color")

    def on(d):
        return exp.values[d][0] is True

    def force(d, value, by, by_level, regardless=False):
        cur, _clause, _why = exp.values[d]
        contrary = level(d) > 0 and cur is not OPEN and cur != value
        if contrary and level(d) >= by_level and not regardless:
            exp.put(d, OPEN, None, "%s against explicit %s" % (by, d))
        else:
            exp.put(d, value, "C20.coupling." + by, "forced by " + by)

    # -- documented couplings
    sc = on("steps_catalog")
    if sc:          # SAME AS: --format=steps.catalog --dry-run --no-summary -q
        lv = level("steps_catalog")
        force("dry_run", True, "steps-catalog", lv)
        force("summary", False, "steps-catalog", lv)
        force("quiet", True, "steps-catalog", lv)
        exp.put("show_skipped", OPEN, None, "steps-catalog")
        exp.put("default_format", OPEN, None, "steps-catalog")
    quiet_level = max(level("quiet") if fv.get("quiet", (None,))[0] or cv.get("quiet") else 0,
                      level("steps_catalog") if sc else 0)
    if exp.values["quiet"][0] is OPEN:
        exp.put("show_source", OPEN, None, "quiet undecided")
        exp.put("show_snippets", OPEN, None, "quiet undecided")
    elif on("quiet"):   # Alias for --no-snippets --no-source
        force("show_source", False, "quiet", quiet_level)
        force("show_snippets", False, "quiet", quiet_level)
    wip = on("wip")
    if wip:         # plain formatter, no capture of stdout/logging, stop at first failure
        lv = level("wip")
        force("stop", True, "wip", lv)
        force("stdout_capture", False, "wip", lv)
        force("log_capture", False, "wip", lv)
        if sc:
            exp.put("default_format", OPEN, None, "wip and steps-catalog")
        else:
            exp.put("default_format", "plain", "C20.coupling.wip", "forced by wip")
        exp.put("color", OPEN, None, "wip")
    if on("junit"):     # all stdout and stderr ... regardless of --capture / --no-capture
        if wip:
            exp.put("stdout_capture", OPEN, None, "wip and junit")
        else:
            force("stdout_capture", True, "junit", 2, regardless=True)
        force("stderr_capture", True, "junit", 2, regardless=True)
        exp.put("log_capture", OPEN, None, "junit")

    # -- sequences
    def fdir(d):
        return case["files"][fv[d][1]]["where"]

    file_fmt = list(fv["format"][0]) if "format" in fv else []
    cli_fmt = list(cv.get("format", []))
    exp.format = file_fmt + cli_fmt
    exp.format_clause = ("C20.list.file-then-cli" if file_fmt and cli_fmt
                         else "C20.list.file-order" if file_fmt else "C20.list.cli-order")
    exp.steps_catalog = sc
    # outfiles: entries are (kind, where, text)  kind: named | filled | cli
    outs = []
    if "outfiles" in fv:
        outs += [("named", fdir("outfiles"), p) for p in fv["outfiles"][0]]
    if "format" in fv:
        n_named = len(outs)
        outs += [("filled", fdir("format"), "%s.output" % name) for name in file_fmt[n_named:]]
    outs += [("cli", "cwd", p) for p in cv.get("outfiles", [])]
    exp.outfiles = outs
    # paths
    if "paths" in cv:
        exp.paths = [("cli", "cwd", p) for p in cv["paths"]]
    elif "paths" in fv:
        exp.paths = [("named", fdir("paths"), p) for p in fv["paths"][0]]
    else:
        exp.paths = []
    # name
    file_name = list(fv["name"][0]) if "name" in fv else []
    cli_name = list(cv.get("name", []))
    if file_name and cli_name:
        exp.name_alternatives = [cli_name, file_name + cli_name]
    else:
        exp.name_alternatives = [file_name + cli_name]
    exp.default_tags = list(fv["default_tags"][0]) if "default_tags" in fv else []
    # tags
    cfg_list = config_tag_list(fv)
    exp.cfg_ast = tag_ast_of(cfg_list)
    if "tags" in cv:
        exp.tag_ast = tag_ast_of(cv["tags"])
        exp.tag_clause = "C20.tags.cli-replaces-file" if cfg_list else "C20.tags.cli"
    else:
        exp.tag_ast = exp.cfg_ast
        exp.tag_clause = "C20.tags.file" if cfg_list else "C20.tags.default"
    exp.wip = wip
    # userdata
    single = len(case["files"]) <= 1
    ud = {}
    origin = {}
    for f in case["files"]:
        for name, value in f["ud"]:
            ud[name] = value
            origin[name] = "file"
    for item in case["cli"]:
        if item["d"] == "define":
            name, value = ref_parse_define(item["v"])
            origin[name] = "cli-over-file" if origin.get(name) in ("file", "cli-over-file") else "cli"
            if define_value_is_lone_quote(item["v"]):
                origin[name] += "+lone-quote"
            ud[name] = value
    exp.userdata = ud
    exp.ud_origin = origin
    exp.ud_file_open = not single
    return exp


def is_nontrivial(case):
    fv = file_values(case)
    cv = cli_values(case)
    for d, v in cv.items():
        if d in fv and fv[d][0] != v:
            return True
    file_ud = {}
    for f in case["files"]:
        file_ud.update(dict((n, v) for n, v in f["ud"]))
    for item in case["cli"]:
        if item["d"] == "define":
            name, value = ref_parse_define(item["v"])
            if name in file_ud and file_ud[name] != value:
                return True
    return False


# ---------------------------------------------------------------------------
# execution
# ---------------------------------------------------------------------------
class Observation(object):
    pass


def _default_arg(g):
    kind = g.get("dk", "omit")
    if kind == "omit":
        return False, None
    if kind == "none":
        return True, None
    return True, g.get("dv")


def run_case(case):
    """Builds the scratch world, constructs Configuration(argv), returns an Observation.
    Everything process-global is restored afterwards."""
    from behave.configuration import Configuration
    from behave.model import ScenarioOutline
    from behave.tag_expression import TagExpressionProtocol
    from behave import userdata as bu

    obs = Observation()
    base = os.path.realpath(tempfile.mkdtemp(prefix="c20-", dir=os.environ.get("VERIF_TMP") or None))
    old_cwd = os.getcwd()
    old_env = dict(os.environ)
    old_schema = ScenarioOutline.annotation_schema
    old_protocol = TagExpressionProtocol.current()
    defaults_before = copy.deepcopy(Configuration.defaults)
    try:
        home = os.path.join(base, "home")
        if case["layout"] == "sep":
            cwd = os.path.join(base, "work", "proj")
        elif case["layout"] == "nested":
            cwd = os.path.join(home, "src", "proj")
        else:
            cwd = home
        os.makedirs(home)
        os.makedirs(cwd, exist_ok=True)
        obs.dirs = {"cwd": cwd, "home": home}
        for f in case["files"]:
            text = render_toml(f) if f["name"] == TOML_NAME else render_ini(f)
            with open(os.path.join(obs.dirs[f["where"]], f["name"]), "w", encoding="utf-8") as fh:
                fh.write(text)
        os.environ["HOME"] = home
        for name in ("BEHAVE_STAGE", "BEHAVE_COLOR", "APPDATA"):
            os.environ.pop(name, None)
        os.chdir(cwd)
        if case.get("earlier"):
            # history within one process (behave driven as a library, main() called twice): an EARLIER Configuration was
            # built from other editions of the same files; nothing of it may be left in the one under test
            paths = [os.path.join(obs.dirs[f["where"]], f["name"]) for f in case["files"]] or [os.path.join(cwd, "behave.ini")]
            kept = {}
            for path in paths:
                if os.path.exists(path):
                    with open(path, encoding="utf-8") as fh:
                        kept[path] = fh.read()
                with open(path, "w", encoding="utf-8") as fh:
                    fh.write(EARLIER_TOML if path.endswith(".toml") else EARLIER_INI)
            try:
                with contextlib.redirect_stdout(io.StringIO()), contextlib.redirect_stderr(io.StringIO()):
                    Configuration(["--define", "earlier=1", "--name", "EarlierName"])
            except (Exception, SystemExit):     # noqa: whatever happens there is not the subject
                pass
            for path in paths:
                if path in kept:
                    with open(path, "w", encoding="utf-8") as fh:
                        fh.write(kept[path])
                else:
                    os.unlink(path)
        argv = render_argv(case)
        obs.argv = argv
        obs.direct = []
        for item in case["cli"]:
            if item["d"] == "define":
                obs.direct.append((item["v"], tuple(bu.parse_user_define(item["v"]))))
        out = io.StringIO()
        obs.crash = None
        try:
            with contextlib.redirect_stdout(out), contextlib.redirect_stderr(out):
                config = Configuration(list(argv))
        except SystemExit as e:
            if any(o.get("lead") for f in case["files"] for o in f["opts"]) or \
                    any((o["d"] in ("include_re", "exclude_re") and o["v"] in BROKEN_RE) or
                        (o["d"] == "default_format" and o["v"] in UNRESOLVABLE_FORMAT)
                        for f in case["files"] for o in f["opts"]):
                obs.crash = "behave exits with: %s" % (out.getvalue().strip().splitlines() or ["?"])[-1][:200]
                return obs
            raise HarnessError("C20: behave rejected the command line %r (exit %s): %s"
                               % (argv, e.code, out.getvalue()[-400:]))
        except Exception as e:      # the command line and the files are valid by construction
            import traceback
            frames = traceback.extract_tb(e.__traceback__)
            where = ["%s:%d" % (os.path.basename(fr.filename), fr.lineno) for fr in frames
                     if os.sep + "behave" + os.sep in fr.filename]
            obs.crash = "%s: %s (%s)" % (type(e).__name__, str(e).splitlines()[0][:200] if str(e) else "",
                                         " > ".join(where[-2:]))
            obs.crash_type = type(e).__name__
            return obs
        a = {}
        for d in list(BOOLS) + list(SCALARS) + ["format", "outfiles", "paths", "name", "default_tags", "tags",
                                                "steps_dir", "environment_file"]:
            a[d] = getattr(config, d, MISSING)
        for d in ("include_re", "exclude_re"):
            if a[d] is not None and a[d] is not MISSING:
                a[d] = getattr(a[d], "pattern", a[d])
        proto = a["tag_expression_protocol"]
        a["tag_expression_protocol"] = (proto.name.lower() if hasattr(proto, "name") else
                                        proto.lower() if isinstance(proto, str) else proto)
        obs.attrs = a
        obs.abspaths = dict((d, [os.path.abspath(p) for p in (a[d] or [])]) for d in ("outfiles", "paths"))
        obs.outputs = [None if o.name is None else os.path.abspath(o.name) for o in config.outputs]
        obs.name_re = config.name_re.pattern if config.name_re is not None else None
        obs.name_hits = [bool(config.name_re.search(n)) for n in ("Alice", "login", "check out")] \
            if config.name_re is not None else None
        obs.tag_checks = [bool(config.tag_expression.check(tags)) for tags in TAG_SETS]
        obs.schema = ScenarioOutline.annotation_schema
        obs.userdata = dict(config.userdata)
        obs.userdata_type = type(config.userdata).__name__
        def call_getters():
            results = []
            for g in case.get("gets", []):
                given, dflt = _default_arg(g)
                target, name = config.userdata, g["n"]
                if g.get("ns") and "." in name:
                    # the same value through a namespace view (UserDataNamespace("my.config").getint("x"))
                    from behave.userdata import UserDataNamespace
                    prefix, name = name.rsplit(".", 1)
                    target = UserDataNamespace(prefix, config.userdata)
                args = [name] + ([dflt] if given else [])
                try:
                    if g["g"].startswith("as:"):
                        what = g["g"][3:]
                        if what == "csv":
                            r = target.getas(csv_convert, *args, valuetype=list)
                        elif what == "percent":
                            r = target.getas(percent_convert, *args, valuetype=float)
                        else:
                            r = target.getas({"int": int, "float": float}[what], *args)
                    else:
                        r = getattr(target, g["g"])(*args)
                    results.append(("ok", r))
                except ValueError as e:
                    results.append(("ValueError", str(e)[:80]))
            return results
        obs.gets = call_getters()
        obs.userdata2 = obs.gets2 = None
        if case.get("update"):
            # history: typed reads, THEN the user data changes in bulk (config.update_userdata() in before_all), then
            # the same typed reads again
            config.update_userdata(dict((k, v) for k, v in case["update"]))
            obs.userdata2 = dict(config.userdata)
            obs.gets2 = call_getters()
        obs.defaults_changed = (Configuration.defaults != defaults_before)
        return obs
    finally:
        os.chdir(old_cwd)
        os.environ.clear()
        os.environ.update(old_env)
        Configuration.defaults = defaults_before
        ScenarioOutline.annotation_schema = old_schema
        TagExpressionProtocol.use(old_protocol)
        shutil.rmtree(base, ignore_errors=True)


def _same(a, b):
    if isinstance(b, bool) or isinstance(a, bool):
        return a is b
    if isinstance(b, float) or isinstance(b, int):
        return type(a) is type(b) and a == b
    return a == b


def _resolve(dirs, entry):
    _kind, where, text = entry
    return os.path.normpath(os.path.join(dirs[where], text))


# ---------------------------------------------------------------------------
# check
# ---------------------------------------------------------------------------
def check(case):
    res = CaseResult()
    validate(case)
    if any(f["name"] == TOML_NAME for f in case["files"]) and not toml_available():
        raise HarnessError("C20: pyproject.toml case but behave has no TOML support")
    exp = model(case)
    obs = run_case(case)
    argv = obs.argv
    fv = file_values(case)
    cv = cli_values(case)
    what = "argv=%r files=%s" % (argv, [(f["where"], f["name"]) for f in case["files"]])

    leads = [o["d"] for f in case["files"] for o in f["opts"] if o.get("lead")]
    if obs.crash is not None:
        if leads:
            res.fail("C20.file.list-values-on-new-lines",
                     "sequence option(s) %s written with all values on new lines below the key: %s; %s"
                     % (leads, obs.crash, what))
        elif argv and argv[-1] == "--color" and getattr(obs, "crash_type", "") == "IndexError":
            res.fail("C20.cli.bare-color-crash", "'--color' as last argument: %s; %s" % (obs.crash, what))
        else:
            res.fail("C20.construct-error", "Configuration(argv) raises %s on valid input; %s" % (obs.crash, what))
        _labels(res, case, exp, fv, cv)
        return res

    a = obs.attrs
    dirs = obs.dirs

    # -- booleans and scalars
    for d, (value, clause, why) in sorted(exp.values.items()):
        if value is OPEN:
            continue
        got = a[d]
        if d == "logging_level":
            value = LOG_LEVELS[value]
        if d == "color" and value == "<off>":
            ok = got in COLOR_OFF
        elif d in BOOLS:
            ok = got is value
        else:
            ok = _same(got, value)
        if not ok:
            res.fail(clause, "%s is %r, expected %r (%s; file value %r, command-line value %r); %s"
                     % (d, got, value, why, fv.get(d, ("<unset>",))[0], cv.get(d, "<unset>"), what),
                     dest=d, why=why)
    # -- stage names (docs: the stage name is the prefix of steps directory and environment file)
    stage = exp.values["stage"][0]
    if stage is not OPEN:
        want = ("steps", "environment.py") if not stage else (stage + "_steps", stage + "_environment.py")
        if (a["steps_dir"], a["environment_file"]) != want:
            res.fail("C20.stage.names", "stage %r gives steps_dir=%r environment_file=%r, expected %r; %s"
                     % (stage, a["steps_dir"], a["environment_file"], want, what))
    # -- outline annotation schema reaches the model class
    schema = exp.values["scenario_outline_annotation_schema"][0]
    if schema is not OPEN and obs.schema != schema:
        res.fail("C20.schema.applied", "ScenarioOutline.annotation_schema is %r, expected %r; %s"
                 % (obs.schema, schema, what))

    # -- format
    got_fmt = list(a["format"] or [])
    want_fmt = list(exp.format)
    if exp.steps_catalog:
        if "steps.catalog" not in got_fmt:
            res.fail("C20.coupling.steps-catalog", "steps_catalog is on but format is %r; %s" % (got_fmt, what))
        else:
            idx = len(got_fmt) - 1 - got_fmt[::-1].index("steps.catalog")
            got_fmt = got_fmt[:idx] + got_fmt[idx + 1:]
    if got_fmt != want_fmt:
        res.fail(exp.format_clause, "format is %r, expected %r (file %r + command line %r); %s"
                 % (a["format"], want_fmt, fv.get("format", ([],))[0], cv.get("format", []), what))
    # -- outfiles
    got_out = obs.abspaths["outfiles"]
    if len(got_out) != len(exp.outfiles):
        clause = ("C20.outfile.fill" if any(k == "filled" for k, _w, _t in exp.outfiles)
                  else "C20.list.file-then-cli" if "outfiles" in fv and "outfiles" in cv else "C20.list.outfiles")
        res.fail(clause, "outfiles is %r, expected %d entries %r; %s"
                 % (a["outfiles"], len(exp.outfiles), [t for _k, _w, t in exp.outfiles], what))
    else:
        for got, entry in zip(got_out, exp.outfiles):
            kind, where, text = entry
            allowed = [_resolve(dirs, entry)]
            if kind == "filled":
                allowed.append(_resolve(dirs, (kind, "cwd", text)))
            if got not in allowed:
                clause = {"named": "C20.path.relative-to-file", "filled": "C20.outfile.fill",
                          "cli": "C20.list.file-then-cli" if "outfiles" in fv else "C20.list.cli-order"}[kind]
                res.fail(clause, "outfile %r (%s, from %s) resolves to %r, expected %r; outfiles=%r; %s"
                         % (text, kind, where, got, allowed[0], a["outfiles"], what))
        if exp.outfiles and obs.outputs != got_out:
            res.fail("C20.outputs", "config.outputs %r does not follow config.outfiles %r; %s"
                     % (obs.outputs, got_out, what))
    if not exp.outfiles and obs.outputs != [None]:
        res.fail("C20.outputs", "no outfile anywhere but config.outputs names %r; %s" % (obs.outputs, what))
    # -- paths
    got_paths = obs.abspaths["paths"]
    want_paths = [_resolve(dirs, e) for e in exp.paths]
    if got_paths != want_paths:
        if "paths" in cv:
            clause = "C20.paths.cli-replaces-file" if "paths" in fv else "C20.list.cli-order"
        elif "paths" in fv:
            same_len = len(got_paths) == len(want_paths)
            clause = "C20.path.relative-to-file" if same_len else "C20.list.file-order"
        else:
            clause = "C20.default"
        res.fail(clause, "paths is %r (absolute %r), expected %r; %s" % (a["paths"], got_paths, want_paths, what))
    # -- name
    got_name = list(a["name"] or [])
    if got_name not in exp.name_alternatives:
        res.fail("C20.list.name", "name is %r, expected %s; %s"
                 % (a["name"], " or ".join(repr(x) for x in exp.name_alternatives), what))
    elif got_name:
        for probe, hit in zip(("Alice", "login", "check out"), obs.name_hits):
            if probe in got_name and not hit:
                res.fail("C20.list.name", "name_re %r does not match the given name %r; %s"
                         % (obs.name_re, probe, what))
    got_dt = list(a["default_tags"] or [])
    if got_dt != exp.default_tags:
        res.fail("C20.list.file-order", "default_tags is %r, expected %r; %s" % (a["default_tags"], exp.default_tags,
                                                                                 what))
    # -- tag expression semantics
    for tags, got in zip(TAG_SETS, obs.tag_checks):
        if exp.wip:
            if got and "wip" not in tags:
                res.fail("C20.tags.wip", "wip mode selects an element tagged %r (tags=%r); %s"
                         % (tags, a["tags"], what))
                break
            continue
        want = tag_eval(exp.tag_ast, tags, exp.cfg_ast)
        if got != want:
            res.fail(exp.tag_clause, "tag expression built from command line %r / file tags %r / default_tags %r "
                     "%s an element tagged %r; config.tags=%r; %s"
                     % (cv.get("tags"), fv.get("tags", (None,))[0], fv.get("default_tags", (None,))[0],
                        "selects" if got else "does not select", tags, a["tags"], what))
            break

    # -- userdata
    for text, got in obs.direct:
        want = ref_parse_define(text)
        if tuple(got) != tuple(want):
            clause = "C20.define.lone-quote" if define_value_is_lone_quote(text) and got[0] == want[0] \
                else "C20.define.parse"
            res.fail(clause, "parse_user_define(%r) = %r, documented schema gives %r" % (text, got, want),
                     text=text)
    for name in sorted(set(exp.userdata) | set(obs.userdata)):
        origin = exp.ud_origin.get(name, "unexpected")
        if origin == "file" and exp.ud_file_open:
            continue
        if origin == "unexpected" and exp.ud_file_open:
            continue
        want = exp.userdata.get(name, "<absent>")
        got = obs.userdata.get(name, "<absent>")
        if got != want:
            if origin.endswith("+lone-quote"):
                clause = "C20.define.lone-quote"
            elif origin.startswith("cli-over-file"):
                clause = "C20.userdata.cli-over-file"
            elif origin == "file":
                clause = "C20.userdata.file"
            else:
                clause = "C20.userdata.define"
            res.fail(clause, "userdata[%r] is %r, expected %r (%s); %s" % (name, got, want, origin, what),
                     name=name)
    for userdata, gets, when in ((obs.userdata, obs.gets, ""), (obs.userdata2, obs.gets2, " [after update_userdata()]")):
        if gets is None:
            continue
        if when:
            res.label("getter:read-update-read")
        for g, (status, value) in zip(case.get("gets", []), gets):
            given, dflt = _default_arg(g)
            call = "%s(%r%s)%s%s" % (g["g"], g["n"], ", %r" % (dflt,) if given else "", " via namespace" if g.get("ns") and "." in g["n"] else "", when)
            if g.get("ns") and "." in g["n"]:
                res.label("getter:via-namespace")
            if g["n"] not in userdata:
                want = dflt if given else GETTER_DEFAULTS.get(g["g"])
                if status != "ok" or not _same(value, want):
                    res.fail("C20.getter.default", "%s on missing name gives %s %r, expected the default %r"
                             % (call, status, value, want))
                res.label("getter:default")
                continue
            text = userdata[g["n"]]
            want = GETTER_ORACLE[g["g"]](text)
            if want is OPEN:
                res.label("open:getter-text")
                continue
            if isinstance(want, str) and want == ERR:
                if status != "ValueError":
                    res.fail("C20.getter.valueerror", "%s with stored text %r returns %r, expected ValueError"
                             % (call, text, value))
                res.label("getter:ValueError")
            else:
                if status != "ok" or not _same(value, want):
                    res.fail("C20.getter.converted", "%s with stored text %r gives %s %r, expected %r"
                             % (call, text, status, value, want))
                res.label("getter:converted")
    if obs.defaults_changed:
        res.fail("C20.isolation.defaults-mutated", "constructing a Configuration changed the class-level "
                 "Configuration.defaults (the next construction starts from other defaults); %s" % what)
    if leads and res.violations:
        # everything that goes wrong here has one cause: report it under its own clause only
        details = "; ".join(v.detail[:160] for v in res.violations[:2])
        res.violations = []
        res.fail("C20.file.list-values-on-new-lines",
                 "sequence option(s) %s written with all values on new lines below the key: %s" % (leads, details))
    _labels(res, case, exp, fv, cv)
    return res


def _labels(res, case, exp, fv, cv):
    res.nontrivial = is_nontrivial(case)
    if res.nontrivial:
        res.label("both-different")
    res.label("layout:" + case["layout"], "files:%d" % len(case["files"]))
    for f in case["files"]:
        res.label("file:" + f["name"], "where:" + f["where"])
        if case.get("earlier"):
            res.label("history:earlier-configuration-from-other-editions-of-the-files")
        if f.get("noise") == 2 and (f["opts"] or f["ud"]):
            res.label("file:behave-section-after-kilobytes-of-other-sections")
        if f["ud"]:
            res.label("file-userdata")
        if any(o.get("lead") for o in f["opts"]):
            res.label("list-on-new-lines")
        if f["name"] != TOML_NAME and any(o.get("interp") for o in f["opts"]):
            res.label("ini:interpolation")
        if any(o["d"] == o2["d"] and o["v"] != o2["v"] for f2 in case["files"] if f2 is not f
               for o in f["opts"] for o2 in f2["opts"]):
            res.label("project-file-over-user-file")
        if any(o["d"] in ("include_re", "exclude_re") and o["v"] in BROKEN_RE for o in f["opts"]):
            res.label("overridden-file-value-unusable:pattern")
        if any(o["d"] == "default_format" and o["v"] in UNRESOLVABLE_FORMAT for o in f["opts"]):
            res.label("overridden-file-value-unusable:default_format")
        if f["name"] != TOML_NAME and any(isinstance(o["v"], str) and "%" in o["v"] and o["d"] not in RAW_INI
                                           for o in f["opts"]):
            res.label("ini:escaped-per-cent")
    for d in fv:
        if d in BOOLS and d in cv:
            res.label("bool-both")
        if d in ("format", "outfiles", "name") and d in cv:
            res.label("append-both")
        if d in ("paths", "outfiles") and case["files"][fv[d][1]]["where"] == "home" and case["layout"] != "same":
            res.label("home-relative-path")
    if any(k == "filled" for k, _w, _t in exp.outfiles):
        res.label("outfile-filled")
    if "tags" in cv and config_tag_list(fv):
        res.label("tags-replace")
    if any(t in TAGS_PH for t in cv.get("tags", [])):
        res.label("placeholder")
    if "paths" in cv and "paths" in fv:
        res.label("paths-replace")
    for d in ("wip", "quiet", "junit", "steps_catalog"):
        if exp.values[d][0] is True:
            res.label("coupling:" + d)
    for text in exp.opens:
        res.label("open:" + text.split("(")[0])
    if any(i["d"] == "define" for i in case["cli"]):
        res.label("define")
        if any(define_value_is_lone_quote(i["v"]) for i in case["cli"] if i["d"] == "define"):
            res.label("define:lone-quote")
    if any(o.startswith("cli-over-file") for o in exp.ud_origin.values()):
        res.label("userdata-override")
    if not fv and not cv:
        res.label("all-defaults")


# ---------------------------------------------------------------------------
# generation
# ---------------------------------------------------------------------------
def _weighted_dests(dests):
    out = []
    for d in dests:
        out += [d] * (1 if d in FORCING else 4)
    return out


FILE_DESTS = _weighted_dests(list(BOOLS) + list(SCALARS) + list(LISTS))
CLI_DESTS = _weighted_dests(list(BOOLS) + [d for d in SCALARS if SCALARS[d][0]]
                            + ["format", "outfiles", "name", "tags", "paths"])


@st.composite
def tag_list_st(draw, proto, is_cli, cfg_list):
    if proto == "v1":
        pool = sorted(TAGS_V1)
    elif proto == "v2" or draw(st.booleans()):
        pool = sorted(TAGS_V2)
        if is_cli and cfg_list and "v2" in tag_dialects(cfg_list, False) and (
                proto == "v2" or any(has_v2_keyword(t) for t in cfg_list)
                or (len(cfg_list) == 1 and cfg_list[0] in TAGS_BOTH)):
            pool = pool + sorted(TAGS_PH) * 2
    else:
        pool = sorted(TAGS_V1)
    return draw(st.lists(st.sampled_from(pool), min_size=1, max_size=3))


@st.composite
def value_st(draw, d, avoid=None):
    if d in BOOLS:
        v = draw(st.booleans())
    elif d == "jobs":
        v = draw(st.integers(0, 16))
    else:
        v = draw(st.sampled_from(POOLS[d]))
    if avoid is not None and v == avoid and draw(st.integers(0, 3)) != 0:
        if d in BOOLS:
            v = not v
        elif d == "jobs":
            v = (v + 1) % 17
        else:
            v = POOLS[d][(POOLS[d].index(v) + 1) % len(POOLS[d])]
    return v


@st.composite
def ud_file_st(draw, max_size=3):
    names = draw(st.lists(st.sampled_from(UD_NAMES), max_size=max_size, unique=True))
    return [[n, draw(st.sampled_from(UD_FILE_VALUES))] for n in names]


@st.composite
def define_text_st(draw, names=None):
    name = draw(st.sampled_from(names or UD_NAMES))
    if draw(st.integers(0, 7)) == 0:
        pad = draw(st.sampled_from(["", " ", "\t"]))
        return pad + name + draw(st.sampled_from(["", " "]))
    value = draw(st.one_of(st.sampled_from(UD_CLI_VALUES), st.sampled_from(UD_CLI_VALUES),
                           st.text(alphabet="ab1 '\"=.,", max_size=5)))
    pads = [draw(st.sampled_from(["", "", "", " ", "  ", "\t"])) for _ in range(6)]
    wq = draw(st.sampled_from(["", "", "", "'", '"']))
    vq = draw(st.sampled_from(["", "", "'", '"']))
    if wq and not vq and ("'" in value or '"' in value):
        wq = ""
    if wq and vq and (value[:1] in "'\"" and value[:1] != "" or value[-1:] in "'\"" and value[-1:] != ""):
        wq = ""
    return (pads[0] + wq + pads[1] + name + pads[2] + "=" + pads[3] + vq + value + vq + pads[4] + wq + pads[5])


@st.composite
def getter_st(draw):
    g = {"g": draw(st.sampled_from(GETTERS)), "n": draw(st.sampled_from(UD_NAMES + ["missing.name", "my.config.x"]))}
    if "." in g["n"] and draw(st.booleans()):
        g["ns"] = True
    kind = draw(st.sampled_from(["omit", "omit", "none", "int", "float", "str", "bool"]))
    g["dk"] = kind
    if kind == "int":
        g["dv"] = draw(st.integers(-5, 99))
    elif kind == "float":
        g["dv"] = draw(st.sampled_from([0.5, -1.25, 50.0]))
    elif kind == "str":
        g["dv"] = draw(st.sampled_from(["chrome", "", "80"]))
    elif kind == "bool":
        g["dv"] = draw(st.booleans())
    return g


@st.composite
def case_st(draw, toml_ok=True, focus="options"):
    layout = draw(st.sampled_from(["sep", "sep", "nested", "nested", "same"]))
    names = INI_NAMES + ([TOML_NAME, TOML_NAME] if toml_ok else [])
    nfiles = draw(st.sampled_from([0, 1, 1, 1, 1, 1, 1, 1, 2, 2]))
    files = []
    used = set()
    for _ in range(nfiles):
        where = draw(st.sampled_from(["cwd", "cwd", "home", "home"]))
        name = draw(st.sampled_from(names))
        key = name if layout == "same" else (where, name)
        if key in used:
            continue
        used.add(key)
        files.append({"where": where, "name": name, "opts": [], "ud": [], "noise": draw(st.sampled_from([False, False, False, True, True, 2])),
                      "st": draw(st.integers(0, 7))})
    max_opts = 8 if focus == "options" else 2
    fdests = draw(st.lists(st.sampled_from(FILE_DESTS), max_size=max_opts, unique=True)) if files else []
    proto = "auto_detect"
    fvals = {}
    if "tag_expression_protocol" in fdests:
        proto = draw(st.sampled_from(POOLS["tag_expression_protocol"]))
        fvals["tag_expression_protocol"] = proto
    for d in fdests:
        if d in fvals:
            continue
        if d in ("tags", "default_tags"):
            fvals[d] = draw(tag_list_st(proto, False, None))
        elif d == "format":
            fvals[d] = draw(st.lists(st.sampled_from(POOLS[d]), min_size=1, max_size=3))
        elif d in LISTS:
            fvals[d] = draw(st.lists(st.sampled_from(POOLS[d]), min_size=1, max_size=3, unique=True))
        else:
            fvals[d] = draw(value_st(d))
    if "outfiles" in fvals and "format" in fvals:
        fvals["outfiles"] = fvals["outfiles"][:len(fvals["format"])]
    unit = draw(st.integers(0, 1))
    for d in fdests:
        index = unit if d in ("format", "outfiles") else draw(st.integers(0, 1))
        opt = {"d": d, "v": fvals[d]}
        if d in BOOLS:
            opt["w"] = draw(st.integers(0, 3))
        elif isinstance(fvals[d], str) and d not in RAW_INI and draw(st.integers(0, 3)) == 0:
            opt["interp"] = True
        files[index % len(files)]["opts"].append(opt)
    if files and (focus == "userdata" or draw(st.integers(0, 3)) == 0):
        files[draw(st.integers(0, len(files) - 1))]["ud"] = draw(ud_file_st(4 if focus == "userdata" else 2))

    # -- command line
    cli = []
    chosen = []
    for d in fdests:
        if d in CLI_DESTS and draw(st.integers(0, 99)) < (60 if focus == "options" else 30):
            chosen.append(d)
    if ("tags" in fdests or "default_tags" in fdests) and "tags" not in chosen and draw(st.integers(0, 1)) == 0:
        chosen.append("tags")
    extra = draw(st.lists(st.sampled_from(CLI_DESTS), max_size=4 if focus == "options" else 1, unique=True))
    for d in extra:
        if d not in chosen:
            chosen.append(d)
    cfg_list = config_tag_list(dict((d, (v, 0)) for d, v in fvals.items()))
    for d in chosen:
        form = draw(st.integers(0, 3))
        if d == "tags":
            for t in draw(tag_list_st(proto, True, cfg_list)):
                cli.append({"d": d, "v": t, "f": draw(st.integers(0, 3))})
        elif d == "paths":
            cli.append({"d": d, "v": draw(st.lists(st.sampled_from(POOLS[d]), min_size=1, max_size=3, unique=True)),
                        "f": 0})
        elif d in ("format", "outfiles", "name"):
            n = draw(st.integers(1, 3))
            if d == "outfiles":
                n = 1
            for _ in range(n):
                cli.append({"d": d, "v": draw(st.sampled_from(POOLS[d])), "f": draw(st.integers(0, 3))})
        elif d in BOOLS:
            v = draw(value_st(d, avoid=fvals.get(d)))
            if not v and not BOOLS[d][1]:
                v = True
            cli.append({"d": d, "v": v, "f": form})
        elif d == "color" and draw(st.integers(0, 4)) == 0:
            cli.append({"d": d, "v": None, "f": form})
        else:
            cli.append({"d": d, "v": draw(value_st(d, avoid=fvals.get(d))), "f": form})
    # -- user data definitions
    file_ud_names = [n for f in files for n, _v in f["ud"]]
    ndef = draw(st.integers(0, 4)) if focus == "userdata" else (draw(st.integers(1, 2))
                                                                  if draw(st.integers(0, 5)) == 0 else 0)
    for _ in range(ndef):
        pool = (file_ud_names * 2 + UD_NAMES) if file_ud_names else UD_NAMES
        cli.append({"d": "define", "v": draw(define_text_st(pool)), "f": draw(st.integers(0, 2))})
    order = draw(st.permutations(list(range(len(cli)))))
    # keep the relative order of append options meaningful but interleave everything
    cli = [cli[i] for i in order]
    gets = []
    if ndef or file_ud_names:
        gets = draw(st.lists(getter_st(), max_size=4 if focus == "userdata" else 1))
    # -- the same option in the per-user file (HOME) and in the per-project file (working directory)
    if len(files) == 2 and layout != "same" and files[0]["where"] != files[1]["where"] and draw(st.integers(0, 2)) == 0:
        for a, b in ((files[0], files[1]), (files[1], files[0])):
            for opt in list(a["opts"]):
                if opt["d"] in DUP_DESTS and not any(o["d"] == opt["d"] for o in b["opts"]) and draw(st.booleans()):
                    b["opts"].append({"d": opt["d"], "v": draw(value_st(opt["d"], avoid=opt["v"]))})
    # -- a file value that is unusable where it stands but overridden by the command line never comes to use
    cli_dests = set(item["d"] for item in cli)
    for f in files:
        for opt in f["opts"]:
            if opt["d"] in ("include_re", "exclude_re") and opt["d"] in cli_dests and draw(st.booleans()):
                opt["v"] = draw(st.sampled_from(BROKEN_RE))
                opt.pop("interp", None)
            elif opt["d"] == "default_format" and "format" in cli_dests and draw(st.booleans()):
                opt["v"] = draw(st.sampled_from(UNRESOLVABLE_FORMAT))
                opt.pop("interp", None)
    case = {"kind": "cfg", "layout": layout, "files": files, "cli": cli}
    if draw(st.integers(0, 3)) == 0:
        case["earlier"] = True
    if gets:
        case["gets"] = gets
        if draw(st.integers(0, 2)) == 0:
            case["update"] = [[g["n"], draw(st.sampled_from(UD_FILE_VALUES))] for g in gets if draw(st.integers(0, 3))]
    return case


# -- complete enumerations ---------------------------------------------------
def _one_file(name, opts, ud=None, where="cwd"):
    return {"where": where, "name": name, "opts": opts, "ud": ud or [], "noise": False, "st": 0}


def bool_twin_enumeration(toml_ok):
    for name in ["behave.ini"] + ([TOML_NAME] if toml_ok else []):
        for d, (_pos, neg, _default) in sorted(BOOLS.items()):
            for in_file in (None, True, False):
                for on_cli in (None, True, False):
                    if on_cli is False and not neg:
                        continue
                    words = range(4) if (name == "behave.ini" and in_file is not None and on_cli is None) else (0,)
                    for w in words:
                        files = [] if in_file is None else [_one_file(name, [{"d": d, "v": in_file, "w": w}])]
                        cli = [] if on_cli is None else [{"d": d, "v": on_cli, "f": 0}]
                        yield {"kind": "cfg", "layout": "sep", "files": files, "cli": cli}


def define_enumeration():
    gets = [{"g": "getint", "n": "k", "dk": "omit"}, {"g": "getbool", "n": "k", "dk": "omit"},
            {"g": "getfloat", "n": "k", "dk": "none"}, {"g": "as:csv", "n": "other", "dk": "str", "dv": "x"}]
    texts = []
    for n in range(4):
        for tup in itertools.product(["a", "'", '"', " ", "="], repeat=n):
            texts.append("k=" + "".join(tup))
    # the documented schemas of parse_user_define
    texts += ["name=value", "name", '"name=value"', "'name=value'", 'name="value"', "name='value'",
              "  name = value  ", "NEEDS_CLEANUP", "foo=bar", ' "k = v" ', "k='a b'", "k==", "k.x=1",
              "\"k='v'\"", "'k=\"v\"'", "k= 'v' "]
    for form in (0, 2):
        for text in texts:
            yield {"kind": "cfg", "layout": "sep", "files": [], "cli": [{"d": "define", "v": text, "f": form}]}
    for text in texts:
        yield {"kind": "cfg", "layout": "sep", "files": [_one_file("behave.ini", [], [["key", "0"]])],
               "cli": [{"d": "define", "v": text, "f": 1}], "gets": gets}


def getter_enumeration():
    for value in UD_FILE_VALUES:
        for g in GETTERS:
            for dk, dv in (("omit", None), ("none", None), ("int", 7)):
                for name in ("port", "absent"):
                    yield {"kind": "cfg", "layout": "sep",
                           "files": [_one_file("behave.ini", [], [["port", value]])], "cli": [],
                           "gets": [{"g": g, "n": name, "dk": dk, "dv": dv}]}


def list_newline_enumeration(toml_ok):
    values = {"format": ["plain", "json"], "outfiles": ["out/plain.txt"], "name": ["Alice", "login"],
              "paths": ["features", "tests/bdd"], "default_tags": ["@foo", "not @zap"], "tags": ["@foo or @bar"]}
    for name in INI_NAMES:
        for d in sorted(values):
            for n in (1, 2):
                v = values[d][:n]
                if len(v) < n:
                    continue
                opts = [{"d": d, "v": v, "lead": True}]
                if d == "outfiles":
                    opts.insert(0, {"d": "format", "v": ["plain"]})
                yield {"kind": "cfg", "layout": "sep", "files": [_one_file(name, opts)], "cli": []}


def color_enumeration():
    for value in COLOR_CHOICES:
        for form in (0, 1):
            for in_file in (None, "never", "always"):
                files = [] if in_file is None else [_one_file("behave.ini", [{"d": "color", "v": in_file}])]
                yield {"kind": "cfg", "layout": "sep", "files": files,
                       "cli": [{"d": "color", "v": value, "f": form}, {"d": "quiet", "v": True, "f": 0}]}
    for form in (0, 1):
        yield {"kind": "cfg", "layout": "sep", "files": [_one_file("behave.ini", [{"d": "color", "v": "always"}])],
               "cli": [{"d": "color", "v": None, "f": form}]}
    # bare "--color" (the value is optional): followed by another option / as the last argument
    yield {"kind": "cfg", "layout": "sep", "files": [],
           "cli": [{"d": "color", "v": "?bare", "f": 0}, {"d": "quiet", "v": True, "f": 0}]}
    yield {"kind": "cfg", "layout": "sep", "files": [], "cli": [{"d": "color", "v": "?bare", "f": 0}]}
    yield {"kind": "cfg", "layout": "sep", "files": [],
           "cli": [{"d": "stop", "v": True, "f": 0}, {"d": "color", "v": "?bare", "f": 0}]}


def explore(rec):
    quick = rec.tier == "quick"
    toml_ok = toml_available()
    rec.enum("bool-twins", bool_twin_enumeration(toml_ok))
    rec.enum("define-texts", define_enumeration())
    rec.enum("getter-table", getter_enumeration())
    rec.enum("sequence-values-on-new-lines", list_newline_enumeration(toml_ok))
    rec.enum("color-spellings", color_enumeration())
    rec.hyp("options", case_st(toml_ok=toml_ok, focus="options"), 7000 if quick else 100000)
    rec.hyp("userdata", case_st(toml_ok=toml_ok, focus="userdata"), 3000 if quick else 40000)


def required_labels(tier):
    labels = ["history:earlier-configuration-from-other-editions-of-the-files", "getter:read-update-read", "getter:via-namespace", "file:behave-section-after-kilobytes-of-other-sections", "both-different", "layout:sep", "layout:nested", "layout:same", "files:0", "files:1", "files:2",
              "file:behave.ini", "file:.behaverc", "file:setup.cfg", "file:tox.ini", "where:cwd", "where:home",
              "bool-both", "append-both", "home-relative-path", "outfile-filled", "tags-replace", "placeholder",
              "paths-replace", "coupling:wip", "coupling:quiet", "coupling:junit", "coupling:steps_catalog",
              "define", "define:lone-quote", "userdata-override", "file-userdata", "getter:default",
              "getter:ValueError", "getter:converted", "list-on-new-lines", "all-defaults", "ini:interpolation",
              "ini:escaped-per-cent", "overridden-file-value-unusable:pattern",
              "overridden-file-value-unusable:default_format", "project-file-over-user-file"]
    if toml_available():
        labels.append("file:" + TOML_NAME)
    return labels


KNOWN_PREDICATES = {}


RULE = RULE + " " + ("The getter table includes zero-padded and prefixed numbers ('007', '-08', '0x10', '+3', '1_0').")
RULE = RULE + " " + ('File values that are unusable where they stand (an include/exclude pattern that is no regular expression, a default_format that cannot be resolved) occur when the command line overrides them (-i/-e, -f): they never come to use.')
RULE = RULE + " " + ('A few simple options are assigned in the per-user file (HOME) and in the per-project file (working directory) at once, under any pair of file names: the project file counts (docs: working directory = per-project settings, home = user settings).')
