# -*- coding: utf-8 -*-
"""C19 -- Active tags exclude exactly by the documented per-category logic.

Oracle sources (documentation, not the implementation):
  * docs/new_and_noteworthy_v1.2.5.rst "Active Tags": schema ``@{prefix}.with_{category}={value}`` with the
    prefixes use / not / only / active / not_active; "a negated active tag (starting with "not")";
    "Unknown categories, missing in the active_tag_value_provider are ignored".
  * docs/new_and_noteworthy_v1.2.7.rst "Improve Active-Tags Logic":
    group.enabled := (OR over positive tags) and not (OR over negative tags), AND over the category groups;
    "Use ValueObject for better Comparisons": compare(current.value, tag.value), NumberValueObject converts with
    int(), value may be a getter function.
  * features/tags.active_tags.feature: truth tables incl. "unknown categories are not ignored":
    a positive tag of an unknown category disables, a negated one does not.
  * class docstrings of behave/tag_matcher.py (value-provider protocol ``get(category, default)``,
    BoolValueObject.TRUE_STRINGS / FALSE_STRINGS, "type conversion error => mis-matched").
"""
from __future__ import annotations

import itertools
import logging
import re

from hypothesis import strategies as st

from ..core import CaseResult

ID = "C19"
LEVEL = "exploration"
RULE = ("(a) COMPLETE enumeration of tag multisets of size 0..4 over {use,not,active,not_active,only} x categories "
        "{a, a.b, c(unknown)} x values {x, xy, y}, in varying order and interleaved with ordinary tags / schema look-alikes; "
        "thorough: each with EVERY assignment of current values to the known categories and every provider mode (dict, "
        "ValueObject, lazy ValueObject, ActiveTagValueProvider with plain / lazy values, get()-only provider, "
        "CompositeActiveTagValueProvider over plain / lazy sub-providers queried twice + its get() protocol, "
        "CompositeTagMatcher over split providers); quick: sizes <= 3 with every assignment and 3 rotating modes, size 4 with "
        "2 rotating assignments and 1 rotating mode. (b) the same for typed categories (NumberValueObject eq/ne/ge/le/gt/lt x "
        "current 1..3, BoolValueObject, malformed tag values), sizes 0..3. (c) Hypothesis-seeded: random categories, value "
        "objects (default / custom compare, contains, lazy), custom prefixes, separators, ignore_unknown_categories given by "
        "constructor, subclass attribute or instance attribute. (d) CompositeTagMatcher over active / predicate / nested "
        "members. (e) value separators containing regex-special characters. Oracle: own parser of the documented schema and "
        "own evaluation: excluded <=> some known category has positives none of which matches, or a matching negative. "
        "One evaluation = one matcher built and asked should_exclude_with + should_run_with for one (tags, current values, "
        "provider mode, configuration). Non-trivial = at least 2 active tags of known categories.")
ASSUMPTIONS = [
    "a tag is negated iff its prefix starts with 'not' (docs v1.2.5 'Active Tag Logic'); this is applied to custom prefixes too",
    "category syntax is word characters with dot-separated parts (all documented examples); other spellings are not generated",
    "a tag that can be split in more than one way by the configured separator is ambiguous and skipped (label 'ambiguous')",
    "plain (non ValueObject) current values are strings or None (known category whose value is unset: matches no tag "
    "value); other non-string plain values are not generated",
    "number tag values are [+-]digits or clearly malformed; bool tag values are the six documented words in any letter "
    "case (BoolValueObject.to_bool lower-cases the text) or clearly malformed",
    "providers of a CompositeActiveTagValueProvider hold disjoint categories (values may change between decisions only in "
    "the 'changing lazy values' sub-check)",
    "with ignore_unknown_categories=False an unknown category behaves as a known one whose value matches nothing "
    "(features/tags.active_tags.feature)",
    "a value_separator is taken literally (sub-check (e), own clause C19.separator-not-literal)",
]
SIMPLIFY = {"cfg": "nullable", "prefixes": "nullable", "sep": "=", "via": "ctor", "op": "eq"}
WATCHDOG_S = {"quick": 900, "thorough": 4 * 3600}

DEFAULT_PREFIXES = ["use", "not", "active", "not_active", "only"]
REGEX_META = set(".^$*+?{}[]\\|()")
MODES = ["dict", "vo", "vo-lazy", "atvp", "atvp-lazy", "getonly", "composite-provider", "composite-provider-lazy",
         "composite-matcher"]

logging.getLogger("behave.active_tags").addHandler(logging.NullHandler())
logging.getLogger("behave.active_tags").propagate = False


# ---------------------------------------------------------------------------
# own reference: schema parser, value matching, exclusion logic
# ---------------------------------------------------------------------------
_CATEGORY_RE = re.compile(r"[A-Za-z0-9_]+(?:\.[A-Za-z0-9_]+)*\Z")
_INT_RE = re.compile(r"[+-]?[0-9]+\Z")
_TRUE = ("true", "yes", "on")
_FALSE = ("false", "no", "off")
_PARSE_CACHE = {}


def own_splits(tag, prefixes, sep):
    """All readings of `tag` as {prefix}.with_{category}{sep}{value} (documented schema)."""
    key = (tag, prefixes, sep)
    hit = _PARSE_CACHE.get(key)
    if hit is not None:
        return hit
    out = []
    for prefix in prefixes:
        head = prefix + ".with_"
        if not tag.startswith(head):
            continue
        rest = tag[len(head):]
        start = 0
        while True:
            i = rest.find(sep, start)
            if i < 0:
                break
            if _CATEGORY_RE.match(rest[:i]):
                reading = (prefix, rest[:i], rest[i + len(sep):])
                if reading not in out:
                    out.append(reading)
            start = i + 1
    if len(_PARSE_CACHE) > 200000:
        _PARSE_CACHE.clear()
    _PARSE_CACHE[key] = out
    return out


def is_negative(prefix):
    return prefix[:3] == "not"


_REF_OPS = {
    "eq": lambda cur, tag: cur == tag,
    "ne": lambda cur, tag: cur != tag,
    "ge": lambda cur, tag: cur >= tag,
    "le": lambda cur, tag: cur <= tag,
    "gt": lambda cur, tag: cur > tag,
    "lt": lambda cur, tag: cur < tag,
    "contains": lambda cur, tag: tag in cur,
    "prefix": lambda cur, tag: tag[:len(cur)] == cur,
    "ieq": lambda cur, tag: cur.lower() == tag.lower(),
    # comparison functions that answer with a TRUTHY / FALSY value instead of True / False (a match object, a
    # count, a bit mask): the answer counts by its truth value
    "count": lambda cur, tag: tag.count(cur),
    "regex": lambda cur, tag: __import__("re").match(cur, tag),
    "bitand": lambda cur, tag: cur & tag,
}


def ref_matches(desc, tag_value):
    """Does the tag value match the current value described by `desc`?"""
    if desc is None:
        return False            # a known category whose current value is None (unset): matches no tag value
    if isinstance(desc, str):
        return desc == tag_value
    op = _REF_OPS[desc.get("op") or "eq"]
    kind = desc["kind"]
    if kind == "value":
        return bool(op(desc["value"], tag_value))
    if kind == "number":
        if not _INT_RE.match(tag_value):
            return False        # malformed: never matches
        return bool(op(desc["value"], int(tag_value, 10)))
    if kind == "bool":
        # (a user-defined subclass of BoolValueObject may know more words: TRUE_STRINGS / FALSE_STRINGS are class attributes)
        more = desc.get("words")
        if tag_value.lower() in _TRUE or (more and tag_value.lower() == "enabled"):
            return bool(op(desc["value"], True))    # the letter case of a boolean word does not matter (to_bool lower-cases)
        if tag_value.lower() in _FALSE or (more and tag_value.lower() == "disabled"):
            return bool(op(desc["value"], False))
        return False
    raise ValueError(kind)


def ref_excluded(active, values, ignore_unknown=True):
    """active: [(prefix, category, value)], values: {category: desc} (the known categories)."""
    groups = {}
    for prefix, category, value in active:
        groups.setdefault(category, []).append((prefix, value))
    for category in sorted(groups):
        known = category in values
        if not known and ignore_unknown:
            continue
        positives = [v for p, v in groups[category] if not is_negative(p)]
        negatives = [v for p, v in groups[category] if is_negative(p)]
        if known:
            desc = values[category]
            pos_hit = any(ref_matches(desc, v) for v in positives)
            neg_hit = any(ref_matches(desc, v) for v in negatives)
        else:
            pos_hit = neg_hit = False
        if (positives and not pos_hit) or neg_hit:
            return True
    return False


# ---------------------------------------------------------------------------
# construction of the real objects from the declarative description
# ---------------------------------------------------------------------------
def _behave_op(name):
    """The comparison function handed to behave.  If behave passes something that is no current value at all (e.g. an
    unevaluated getter object) the comparison answers False instead of raising in user code: the wrong verdict shows."""
    op = _behave_op_raw(name)

    def compare(cur, tag):
        try:
            return op(cur, tag)
        except (TypeError, AttributeError):
            return False
    return compare


def _behave_op_raw(name):
    import operator
    if name == "prefix":
        return lambda cur, tag: tag.startswith(cur)
    if name == "ieq":
        return lambda cur, tag: cur.lower() == tag.lower()
    if name == "count":
        return lambda cur, tag: tag.count(cur)
    if name == "regex":
        import re
        return lambda cur, tag: re.match(cur, tag)
    if name == "bitand":
        return operator.and_
    return getattr(operator, name)


class _CallableGetter(object):
    def __init__(self, fn):
        self._fn = fn

    def __call__(self):
        return self._fn()


def _getter(form, fn):
    """A lazy current value is 'a getter-function (w/o args)': spelled as a lambda / def-function, as a
    functools.partial object or as an instance with __call__ -- any callable."""
    if form == "partial":
        import functools
        return functools.partial(lambda f: f(), fn)
    if form == "object":
        return _CallableGetter(fn)
    return fn


def build_value(desc, force_lazy=False, wrap_plain=False):
    from behave.tag_matcher import BoolValueObject, NumberValueObject, ValueObject
    if desc is None:
        return ValueObject((lambda: None) if force_lazy else None) if wrap_plain else None
    if isinstance(desc, str):
        if not wrap_plain:
            return desc
        return ValueObject((lambda v=desc: v) if force_lazy else desc)
    raw = desc["value"]
    cur = _getter(desc.get("getter"), (lambda v=raw: v)) if (desc.get("lazy") or force_lazy) else raw
    cls = {"value": ValueObject, "number": NumberValueObject, "bool": BoolValueObject}[desc["kind"]]
    if desc["kind"] == "bool" and desc.get("words"):
        class SwitchValueObject(BoolValueObject):
            TRUE_STRINGS = set(BoolValueObject.TRUE_STRINGS) | set(["enabled"])
            FALSE_STRINGS = set(BoolValueObject.FALSE_STRINGS) | set(["disabled"])
        cls = SwitchValueObject
    if desc.get("op") is None:
        return cls(cur)         # default comparison: equals
    return cls(cur, _behave_op(desc["op"]))


class GetOnlyProvider(object):
    """Minimal documented value-provider protocol: get(category_name, default=None)."""

    def __init__(self, data):
        self._data = data

    def get(self, category_name, default=None):
        if category_name in self._data:
            return self._data[category_name]
        return default


def split_values(values):
    cats = sorted(values)
    return ({c: values[c] for c in cats[0::2]}, {c: values[c] for c in cats[1::2]})


def build_provider(mode, values):
    from behave.tag_matcher import ActiveTagValueProvider, CompositeActiveTagValueProvider
    if mode == "none":
        return None
    if mode == "dict":
        return {c: build_value(d) for c, d in values.items()}
    if mode == "vo":
        return {c: build_value(d, wrap_plain=True) for c, d in values.items()}
    if mode == "vo-lazy":
        return {c: build_value(d, force_lazy=True, wrap_plain=True) for c, d in values.items()}
    if mode == "atvp":
        return ActiveTagValueProvider({c: build_value(d) for c, d in values.items()})
    if mode == "atvp-lazy":
        return ActiveTagValueProvider({c: (lambda v=build_value(d): v) for c, d in values.items()})
    if mode == "getonly":
        return GetOnlyProvider({c: build_value(d) for c, d in values.items()})
    if mode == "composite-provider":
        first, second = split_values(values)
        return CompositeActiveTagValueProvider([
            {},
            {c: build_value(d) for c, d in first.items()},
            ActiveTagValueProvider({c: (lambda v=build_value(d): v) for c, d in second.items()}),
        ])
    if mode == "composite-provider-lazy":
        first, second = split_values(values)
        return CompositeActiveTagValueProvider([
            {c: (lambda v=build_value(d): v) for c, d in first.items()},
            GetOnlyProvider({}),
            ActiveTagValueProvider({c: (lambda v=build_value(d): v) for c, d in second.items()}),
        ])
    raise ValueError(mode)


def _shown(obj):
    if obj is None or isinstance(obj, (str, int, bool)):
        return repr(obj)
    return "a %s.%s object" % (type(obj).__module__, type(obj).__name__)


def check_provider_protocol(res, provider, values, where):
    """Documented value-provider protocol: get(category, default) returns the category value, or the default
    for an unknown category -- also when asked repeatedly (composite provider: cached)."""
    for attempt in (1, 2):
        for category in sorted(values):
            got = provider.get(category, None)
            desc = values[category]
            if desc is None:
                bad = got is not None
            else:
                bad = (got != desc) if isinstance(desc, str) else (got is None or isinstance(got, str))
            if bad:
                res.fail("C19.provider-get", "get(%r, None) #%d returned %s; %s"
                         % (category, attempt, _shown(got), where()))
                return
        got = provider.get("zz.unknown", "dflt")
        if got != "dflt":
            res.fail("C19.provider-get", "get('zz.unknown', 'dflt') #%d returned %s instead of the default; %s"
                     % (attempt, _shown(got), where()))
            return


def norm_cfg(cfg):
    cfg = cfg or {}
    prefixes = cfg.get("prefixes")
    sep = cfg.get("sep")
    ignore = cfg.get("ignore_unknown")
    return (tuple(prefixes) if prefixes is not None else tuple(DEFAULT_PREFIXES),
            sep if sep is not None else "=",
            True if ignore is None else bool(ignore))


def build_active_matcher(provider, cfg):
    from behave.tag_matcher import ActiveTagMatcher
    cfg = cfg or {}
    prefixes = cfg.get("prefixes")
    prefixes = list(prefixes) if prefixes is not None else None
    via = cfg.get("via") or "ctor"
    if via == "subclass":
        attrs = {}
        if prefixes is not None:
            attrs["tag_prefixes"] = prefixes
        if cfg.get("sep") is not None:
            attrs["value_separator"] = cfg["sep"]
        if cfg.get("ignore_unknown") is not None:
            attrs["ignore_unknown_categories"] = bool(cfg["ignore_unknown"])
        return type("CustomActiveTagMatcher", (ActiveTagMatcher,), attrs)(provider)
    if via == "attr":
        matcher = ActiveTagMatcher(provider, tag_prefixes=prefixes, value_separator=cfg.get("sep"))
        if cfg.get("ignore_unknown") is not None:
            matcher.ignore_unknown_categories = bool(cfg["ignore_unknown"])    # as features/steps does
        return matcher
    return ActiveTagMatcher(provider, tag_prefixes=prefixes, value_separator=cfg.get("sep"),
                            ignore_unknown_categories=cfg.get("ignore_unknown"))


# ---------------------------------------------------------------------------
# evaluation of one (tags, values, mode, cfg)
# ---------------------------------------------------------------------------
def parse_tags(tags, cfg):
    """-> (active readings, n_ordinary, ambiguous?)"""
    prefixes, sep, _ignore = norm_cfg(cfg)
    active = []
    ordinary = 0
    for tag in tags:
        readings = own_splits(tag, prefixes, sep)
        if len(readings) > 1:
            return None, 0, True
        if readings:
            active.append(readings[0])
        else:
            ordinary += 1
    return active, ordinary, False


def member_expected(tags, member):
    """Own verdict for one member of a composite matcher; None if ambiguous."""
    if "members" in member:
        verdicts = [member_expected(tags, m) for m in member["members"]]
        if any(v is None for v in verdicts):
            return None
        return any(verdicts)
    if "pred" in member:
        if member["pred"] == "has":
            return member["tag"] in tags
        return bool(member["value"])
    active, _ordinary, ambiguous = parse_tags(tags, member.get("cfg"))
    if ambiguous:
        return None
    return ref_excluded(active, member["values"], norm_cfg(member.get("cfg"))[2])


def build_member(member):
    from behave.tag_matcher import CompositeTagMatcher, PredicateTagMatcher
    if "members" in member:
        return CompositeTagMatcher([build_member(m) for m in member["members"]])
    if "pred" in member:
        if member["pred"] == "has":
            return PredicateTagMatcher(lambda tags, t=member["tag"]: t in tags)
        return PredicateTagMatcher(lambda tags, v=bool(member["value"]): v)
    return build_active_matcher(build_provider(member.get("mode") or "dict", member["values"]), member.get("cfg"))


def _describe(tags, values, mode, cfg):
    text = "tags=%s values=%s provider=%s" % (tags, values, mode)
    if cfg:
        text += " cfg=%s" % (cfg,)
    return text


def verdict_clause(behave_excl, expected, active, values, ignore_unknown, sep, mode):
    if REGEX_META & set(sep):
        return "C19.separator-not-literal.verdict"
    has_unknown = any(c not in values for _p, c, _v in active)
    if ignore_unknown and has_unknown and bool(behave_excl) == ref_excluded(active, values, False):
        family = "provider-class" if mode.startswith(("atvp", "composite-provider")) else "mapping"
        return "C19.unknown-category-not-ignored." + family
    return "C19.false-exclude" if behave_excl else "C19.false-run"


def evaluate(res, tags, values, mode, cfg, parsed=None):
    """Build the matcher for one configuration, query it, compare with the oracle.  Returns #evaluations."""
    from behave.tag_matcher import CompositeTagMatcher
    _prefixes, sep, ignore_unknown = norm_cfg(cfg)
    active, _ordinary, ambiguous = parsed or parse_tags(tags, cfg)
    if ambiguous:
        res.label("ambiguous")
        return 0
    meta = bool(REGEX_META & set(sep))
    try:
        if mode == "composite-matcher":
            first, second = split_values(values)
            members = [build_active_matcher({c: build_value(d) for c, d in first.items()}, cfg),
                       build_active_matcher({c: build_value(d) for c, d in second.items()}, cfg)]
            matcher = CompositeTagMatcher(members)
            expected = (ref_excluded(active, first, ignore_unknown) or ref_excluded(active, second, ignore_unknown))
        else:
            provider = build_provider(mode, values)
            matcher = build_active_matcher(provider, cfg)
            expected = ref_excluded(active, values, ignore_unknown)
    except Exception as e:      # noqa
        res.fail("C19.separator-not-literal.raises" if meta else "C19.construction-raises",
                 "building the matcher raised %s: %s; %s"
                 % (type(e).__name__, e, _describe(tags, values, mode, cfg)), mode=mode)
        return 1
    queries = 2 if mode.startswith("composite-provider") else 1
    first_verdict = None
    for q in range(queries):
        try:
            excl = matcher.should_exclude_with(list(tags))
            run = matcher.should_run_with(list(tags))
        except Exception as e:      # noqa
            res.fail("C19.separator-not-literal.raises" if meta else "C19.query-raises",
                     "query #%d raised %s: %s; %s"
                     % (q + 1, type(e).__name__, e, _describe(tags, values, mode, cfg)), mode=mode)
            return q + 1
        if q == 0:
            first_verdict = excl
        if not (excl is True or excl is False):
            res.fail("C19.verdict-not-bool", "should_exclude_with returned %r; %s"
                     % (excl, _describe(tags, values, mode, cfg)), mode=mode)
        if bool(run) != (not excl):
            res.fail("C19.run-is-not-exclude", "should_run_with=%r but should_exclude_with=%r; %s"
                     % (run, excl, _describe(tags, values, mode, cfg)), mode=mode)
        if bool(excl) != expected:
            if q == 1 and bool(first_verdict) == expected:
                clause = "C19.cached-query-differs"
            elif mode == "composite-matcher" and not meta:
                clause = "C19.composite-matcher"
            else:
                clause = verdict_clause(excl, expected, active, values, ignore_unknown, sep, mode)
            res.fail(clause, "should_exclude_with=%r (query #%d), documented logic gives %r; %s"
                     % (excl, q + 1, expected, _describe(tags, values, mode, cfg)), mode=mode, expected=expected)
            break
    if queries == 2:
        check_provider_protocol(res, provider, values, lambda: _describe(tags, values, mode, cfg))
    res.label("excluded" if expected else "runs")
    return queries


def classify(res, tags, values_list, cfg):
    """Labels + non-triviality from the own reading of the tags."""
    active, ordinary, ambiguous = parse_tags(tags, cfg)
    if ambiguous:
        return
    if ordinary:
        res.label("ordinary-tag")
    if not active:
        res.label("no-active-tag")
    for values in values_list:
        known = [(p, c, v) for p, c, v in active if c in values]
        if len(known) >= 2:
            res.nontrivial = True
        if len(known) < len(active):
            res.label("unknown-category")
        by_cat = {}
        for p, c, v in known:
            by_cat.setdefault(c, set()).add(is_negative(p))
        if len(by_cat) >= 2:
            res.label("multi-category")
        if any(len(s) == 2 for s in by_cat.values()):
            res.label("positive+negative-same-category")
        for p, c, v in known:
            desc = values[c]
            if isinstance(desc, dict):
                res.label("kind:" + desc["kind"])
                if desc.get("lazy"):
                    res.label("lazy-value-object")
                    if desc.get("getter") in ("partial", "object"):
                        res.label("lazy-getter:" + desc["getter"])
                if desc["kind"] == "number" and not _INT_RE.match(v):
                    res.label("malformed-number")
                if desc["kind"] == "bool" and v.lower() not in _TRUE and v.lower() not in _FALSE:
                    res.label("malformed-bool")
                if desc["kind"] == "bool" and desc.get("words") and v.lower() in ("enabled", "disabled"):
                    res.label("bool-subclass-with-more-words")
                if desc.get("op") in ("contains", "prefix", "ieq"):
                    res.label("custom-compare")
                if desc.get("op") in ("count", "regex", "bitand"):
                    res.label("custom-compare:truthy-answer")
    if cfg:
        if cfg.get("prefixes") is not None:
            res.label("custom-prefixes")
            if any("not" in p and not is_negative(p) for p, _c, _v in active):
                res.label("prefix-contains-not-but-positive")
        if cfg.get("sep") is not None and cfg.get("sep") != "=":
            res.label("custom-separator")
        if cfg.get("ignore_unknown") is False:
            res.label("unknown-not-ignored")
        if cfg.get("via") in ("subclass", "attr"):
            res.label("via:" + cfg["via"])


def check(case):
    res = CaseResult()
    kind = case.get("kind", "matrix")
    tags = case["tags"]
    if kind == "composite":
        return check_composite(res, case)
    if kind == "version":
        return check_version(res, case)
    if kind == "changing":
        return check_changing(res, case)
    if kind == "setup":
        return check_setup(res, case)
    if kind == "unavailable":
        return check_unavailable(res, case)
    if kind == "overlap":
        return check_overlap(res, case)
    cfg = case.get("cfg")
    values_list = case["values"]
    modes = case["modes"]
    evals = 0
    parsed = parse_tags(tags, cfg)
    for values in values_list:
        for mode in modes:
            if mode == "none" and values:
                continue
            evals += evaluate(res, tags, values, mode, cfg, parsed)
            res.label("provider:" + mode)
    res.evals = evals
    classify(res, tags, values_list, cfg)
    res.label("size:%d" % min(len(tags), 5))
    if kind == "literal-sep":
        res.label("regex-special-separator")
    res.labels = sorted(set(res.labels))
    return res


class NotAvailableYet(Exception):
    pass


def check_unavailable(res, case):
    """Malformed tag values never match -- whatever the current value is: the verdict for a typed category all of
    whose tags are malformed does not need the current value, so a lazy current value that cannot be computed at
    that moment (the callable raises) changes nothing."""
    from behave.tag_matcher import ActiveTagValueProvider, CompositeActiveTagValueProvider
    from behave.tag_matcher import BoolValueObject, NumberValueObject
    tags, values, mode = case["tags"], case["values"], case["mode"]
    active, _ordinary, ambiguous = parse_tags(tags, None)
    if ambiguous:
        res.label("ambiguous")
        return res
    bombs = sorted(c for c in case["bombs"] if c in values)

    def bomb():
        raise NotAvailableYet("the current value cannot be computed yet")
    provider = {}
    for c, d in values.items():
        if c in bombs:
            cls = {"number": NumberValueObject, "bool": BoolValueObject}[d["kind"]]
            provider[c] = cls(bomb) if d.get("op") is None else cls(bomb, _behave_op(d["op"]))
        else:
            provider[c] = build_value(d)
    if mode == "atvp":
        provider = ActiveTagValueProvider(provider)
    elif mode == "composite-dict":
        provider = CompositeActiveTagValueProvider([{}, provider])
    matcher = build_active_matcher(provider, None)
    expected = ref_excluded(active, values, True)
    res.evals = 1
    res.nontrivial = True
    res.label("malformed-with-unavailable-current-value", "unavailable:" + mode)
    try:
        excl = matcher.should_exclude_with(list(tags))
    except NotAvailableYet:
        res.fail("C19.malformed.needs-current-value", "tags %r: every tag of the typed categories %s has a malformed "
                 "value (never matching), yet the decision evaluated the lazy current value (which raised)"
                 % (tags, bombs), mode=mode)
        return res
    if bool(excl) != expected:
        res.fail("C19.malformed.verdict", "tags %r, values %r: should_exclude_with=%r, expected %r"
                 % (tags, values, excl, expected), mode=mode)
    return res


def gen_unavailable_case(rnd):
    cats = _sample(rnd, ["cores", "gui", "os", "level"], 3, 1)
    values, tags, bombs = {}, [], []
    for c in cats:
        kind = rnd.choice(["number", "bool", "plain"])
        if kind == "plain":
            values[c] = rnd.choice(STRING_POOL[:5])
            for _ in range(rnd.randint(0, 2)):
                tags.append("%s.with_%s=%s" % (rnd.choice(DEFAULT_PREFIXES), c, rnd.choice(STRING_POOL[:5])))
            continue
        if kind == "number":
            values[c] = {"kind": "number", "op": rnd.choice(NUMBER_OPS), "value": rnd.randint(0, 9)}
            bad = NUMBER_TAGS_BAD
        else:
            values[c] = {"kind": "bool", "op": rnd.choice([None, "eq", "ne"]), "value": rnd.random() < 0.5}
            bad = BOOL_TAGS_BAD
        bombs.append(c)
        for _ in range(rnd.randint(1, 3)):
            tags.append("%s.with_%s=%s" % (rnd.choice(DEFAULT_PREFIXES), c, rnd.choice(bad)))
    rnd.shuffle(tags)
    return {"kind": "unavailable", "tags": tags, "values": values, "bombs": bombs,
            "mode": rnd.choice(["dict", "atvp", "composite-dict"])}


def check_overlap(res, case):
    """A composite provider over providers that BOTH know a category (overrides before defaults): the first one
    decides, at every decision, with its CURRENT (lazy) value -- also when its lazy value could not be computed at
    the time of an earlier decision (a LookupError from the user's callable is the user's error, not 'unknown')."""
    from behave.tag_matcher import ActiveTagValueProvider, CompositeActiveTagValueProvider
    tags, worlds, defaults, mode = case["tags"], case["values"], case["defaults"], case["mode"]
    active, _ordinary, ambiguous = parse_tags(tags, None)
    if ambiguous:
        res.label("ambiguous")
        return res
    cats = sorted(worlds[0])
    cell = {"now": worlds[0], "ready": not case.get("late")}

    def current(c):
        if not cell["ready"]:
            raise KeyError(c)       # settings[c] is not there yet
        return cell["now"][c]
    overrides = {c: (lambda c=c: current(c)) for c in cats}
    if mode == "atvp":
        provider = CompositeActiveTagValueProvider([ActiveTagValueProvider(overrides), ActiveTagValueProvider(dict(defaults))])
    elif mode == "dict":
        provider = CompositeActiveTagValueProvider([overrides, dict(defaults)])
    else:
        provider = CompositeActiveTagValueProvider([ActiveTagValueProvider(overrides), dict(defaults)])
    matcher = build_active_matcher(provider, None)
    res.label("overlapping-providers", "overlap:" + mode)
    if case.get("late"):
        res.label("overlap:first-decision-before-the-value-exists")
        try:
            matcher.should_exclude_with(list(tags))
        except KeyError:
            res.label("overlap:first-decision-raised")
        cell["ready"] = True
    verdicts = []
    for k in case.get("order") or [0, 1]:
        cell["now"] = worlds[k]
        expected = ref_excluded(active, dict(defaults, **worlds[k]), True)
        by_defaults = ref_excluded(active, dict(defaults), True)
        excl = matcher.should_exclude_with(list(tags))
        res.evals += 1
        verdicts.append(expected)
        if expected != by_defaults:
            res.nontrivial = True
            res.label("overlap:providers-disagree")
        if bool(excl) != expected:
            res.fail("C19.overlap.first-provider-decides", "tags %r, decision #%d: should_exclude_with=%r; the first "
                     "provider's current values %r give %r (the second provider holds %r)%s"
                     % (tags, len(verdicts), excl, worlds[k], expected, defaults,
                        "; at an earlier decision the first provider's value did not exist yet" if case.get("late") else ""),
                     mode=mode)
            break
    return res


def gen_overlap_case(rnd):
    cats = _sample(rnd, ["browser", "os", "level"], 3, 1)
    pool = STRING_POOL[:5]
    worlds = [{c: rnd.choice(pool) for c in cats} for _ in range(2)]
    defaults = {c: rnd.choice(pool) for c in cats}
    if rnd.random() < 0.5:
        defaults["extra"] = rnd.choice(pool)
    tags = []
    for _ in range(rnd.randint(1, 4)):
        c = rnd.choice(cats + (["extra"] if "extra" in defaults else []))
        tags.append("%s.with_%s=%s" % (rnd.choice(DEFAULT_PREFIXES), c, rnd.choice(pool)))
    return {"kind": "overlap", "tags": tags, "values": worlds, "defaults": defaults,
            "mode": rnd.choice(["atvp", "dict", "mixed"]), "late": rnd.random() < 0.5,
            "order": rnd.choice([[0, 1], [0, 1, 0], [1, 0]])}


SETUP_MODES = ["dict", "atvp", "composite-dict", "composite-atvp", "composite-mixed"]


def check_setup(res, case):
    """The documented way to configure current values: setup_active_tag_values(provider, userdata) in
    before_all -- "only values for keys that are already present are updated" -- then decisions are made
    against the configured values."""
    from behave.tag_matcher import ActiveTagValueProvider, CompositeActiveTagValueProvider, setup_active_tag_values
    tags, cfg, mode = case["tags"], case.get("cfg"), case["mode"]
    initial, overrides = case["values"], case["overrides"]
    cats = sorted(initial)
    _prefixes, _sep, ignore_unknown = norm_cfg(cfg)
    active, _ordinary, ambiguous = parse_tags(tags, cfg)
    if ambiguous:
        res.label("ambiguous")
        return res
    built = {c: build_value(initial[c]) for c in cats}
    first, second = {c: built[c] for c in cats[0::2]}, {c: built[c] for c in cats[1::2]}
    if mode == "dict":
        provider = dict(built)
    elif mode == "atvp":
        provider = ActiveTagValueProvider(dict(built))
    elif mode == "composite-dict":
        provider = CompositeActiveTagValueProvider([{}, first, second])
    elif mode == "composite-atvp":
        provider = CompositeActiveTagValueProvider([ActiveTagValueProvider(first), ActiveTagValueProvider(second)])
    elif mode == "composite-mixed":
        provider = CompositeActiveTagValueProvider([first, ActiveTagValueProvider(second)])
    else:
        raise ValueError(mode)
    if case.get("asked_before"):
        # some categories were already looked up through the provider before the configuration arrives
        for c in cats[:1]:
            provider.get(c)
    matcher = None
    if case.get("matcher_first"):
        # the documented environment.py layout: the matcher is created at module level, the values are
        # configured later in before_all()
        matcher = build_active_matcher(provider, cfg)
    setup_active_tag_values(provider, dict(overrides))
    merged = dict(initial)
    for c, v in overrides.items():
        if c in merged:
            merged[c] = v
    if matcher is None:
        matcher = build_active_matcher(provider, cfg)
    else:
        res.label("setup:matcher-created-before-the-values")
    expected = ref_excluded(active, merged, ignore_unknown)
    excl = matcher.should_exclude_with(list(tags))
    res.evals = 1
    if bool(excl) != expected:
        res.fail("C19.configured-values", "after setup_active_tag_values(provider, %r): should_exclude_with=%r, the documented "
                 "logic gives %r for the configured values %r; %s"
                 % (overrides, excl, expected, merged, _describe(tags, merged, "setup:" + mode, cfg)), mode=mode)
    res.label("setup_active_tag_values", "setup:" + mode)
    if any(c in initial and initial[c] != v for c, v in overrides.items()):
        res.label("setup:overrides-known-category")
        res.nontrivial = True
    if any(c not in initial for c in overrides):
        res.label("setup:unknown-category-in-data")
    return res


CHANGING_MODES = ["dict", "atvp", "composite-dict", "composite-atvp", "composite-mixed"]


def check_changing(res, case):
    """Lazy (callable) current values: every decision is made against the value the callable returns
    NOW -- one matcher, the world behind the callables changes between decisions (a hook switches the
    browser, the matcher is created before the configuration is final)."""
    from behave.tag_matcher import ActiveTagValueProvider, CompositeActiveTagValueProvider
    from behave.tag_matcher import BoolValueObject, NumberValueObject, ValueObject
    tags, cfg, mode = case["tags"], case.get("cfg"), case["mode"]
    worlds = case["values"]
    cats = sorted(worlds[0])
    _prefixes, _sep, ignore_unknown = norm_cfg(cfg)
    active, _ordinary, ambiguous = parse_tags(tags, cfg)
    if ambiguous:
        res.label("ambiguous")
        return res
    cell = {"now": worlds[0]}
    form = case.get("getter")
    lazy = {c: _getter(form, (lambda c=c: build_value(cell["now"][c]))) for c in cats}
    first, second = {c: lazy[c] for c in cats[0::2]}, {c: lazy[c] for c in cats[1::2]}
    # categories that the providers LEARN only after the first decision (a hook stores the browser once it is started)
    late = [c for c in (case.get("late") or []) if c in cats] if mode in ("dict", "composite-dict", "composite-mixed") else []
    if mode == "dict":
        # a plain mapping is read with get(): lazy values are value objects built over a callable
        # (documented: ValueObject(callable)); a bare callable stands for a lazy plain value
        provider = {}
        for c in cats:
            d = worlds[0][c]
            if d is None or isinstance(d, str):
                provider[c] = _getter(form, (lambda c=c: cell["now"][c]))
            else:
                cls = {"value": ValueObject, "number": NumberValueObject, "bool": BoolValueObject}[d["kind"]]
                cur = _getter(form, (lambda c=c: cell["now"][c]["value"]))
                provider[c] = cls(cur) if d.get("op") is None else cls(cur, _behave_op(d["op"]))
    elif mode == "atvp":
        provider = ActiveTagValueProvider(dict(lazy))
    elif mode == "composite-dict":
        provider = CompositeActiveTagValueProvider([{}, first, second])
    elif mode == "composite-atvp":
        provider = CompositeActiveTagValueProvider([ActiveTagValueProvider(first), ActiveTagValueProvider(second)])
    elif mode == "composite-mixed":
        provider = CompositeActiveTagValueProvider([first, GetOnlyProvider({}), ActiveTagValueProvider(second)])
    else:
        raise ValueError(mode)
    holders = {}
    for c in late:
        # (only mappings that the provider reads by reference: ActiveTagValueProvider takes a copy of its data)
        for mapping in ([provider] if mode == "dict" else ([first] if mode == "composite-mixed" else [first, second])):
            if c in mapping:
                holders[c] = (mapping, mapping.pop(c))
    matcher = build_active_matcher(provider, cfg)
    verdicts = []
    order = case.get("order") or [0, 1, 0]
    for n_decision, k in enumerate(order):
        if n_decision == 1:
            for c, (mapping, value) in holders.items():
                mapping[c] = value
            if holders:
                res.label("changing:category-learned-after-the-first-decision")
        cell["now"] = worlds[k]
        known_now = worlds[k] if (n_decision >= 1 or not holders) else {c: v for c, v in worlds[k].items() if c not in holders}
        expected = ref_excluded(active, known_now, ignore_unknown)
        excl = matcher.should_exclude_with(list(tags))
        res.evals += 1
        verdicts.append(expected)
        if bool(excl) != expected:
            res.fail("C19.lazy-value-not-current", "decision #%d: should_exclude_with=%r, the documented logic gives %r for the "
                     "CURRENT values %r (values at the other decisions: %r); %s"
                     % (len(verdicts), excl, expected, worlds[k], [w for w in worlds if w is not worlds[k]],
                        _describe(tags, worlds[k], "changing:" + mode, cfg)), mode=mode)
            break
    res.label("changing-lazy-values", "changing:" + mode)
    if len(set(verdicts)) > 1:
        res.label("changing:verdict-flips")
        res.nontrivial = True
    return res


_VERSION_OPS = {"eq": lambda cur, tag: cur == tag, "ge": lambda cur, tag: cur >= tag, "le": lambda cur, tag: cur <= tag}


def _version_tuple(text):
    parts = text.split(".")
    if not parts or any(not _INT_RE.match(p) for p in parts):
        return None
    return tuple(int(p, 10) for p in parts)


def check_version(res, case):
    """behave.active_tag.python.VersionValueObject (python.min_version / python.max_version): the current
    version may be given as tuple or as dotted text; tag values are dotted numbers compared as tuples
    with the declared operator; malformed tag values never match."""
    import operator
    from behave.active_tag.python import VersionValueObject
    from behave.tag_matcher import ActiveTagMatcher
    cur = case["cur"]
    cur_tuple = tuple(cur) if isinstance(cur, list) else _version_tuple(cur)
    op = case["op"]
    current = VersionValueObject(tuple(cur) if isinstance(cur, list) else cur, getattr(operator, op))
    matcher = ActiveTagMatcher({"python.version": current})
    active = []
    for tag in case["tags"]:
        prefix, rest = tag.split(".with_", 1)
        category, value = rest.split("=", 1)
        active.append((prefix, category, value))
    positives = [v for p, c, v in active if not is_negative(p)]
    negatives = [v for p, c, v in active if is_negative(p)]

    def matches(v):
        t = _version_tuple(v)
        return t is not None and bool(_VERSION_OPS[op](cur_tuple, t))
    want = bool((positives and not any(matches(v) for v in positives)) or any(matches(v) for v in negatives))
    got = matcher.should_exclude_with(case["tags"])
    res.evals = 1
    if bool(got) != want:
        res.fail("C19.version-object", "VersionValueObject(%r, %s): should_exclude_with(%s) == %s, documented logic gives %s"
                 % (cur, op, case["tags"], got, want))
    res.label("version-object", "version-object:" + ("text" if isinstance(cur, str) else "tuple"))
    res.nontrivial = len(case["tags"]) >= 2
    return res


def version_enumeration():
    # versions whose components end in 0 / contain 0 (3.10 is not 3.1), longer and shorter than the current one
    values = ["3.12", "3.5", "3", "3.12.1", "2.7", "3.x", "", "3.10", "3.1", "3.0", "10.0", "3.20.0"]
    prefixes = ["use", "not", "only"]
    singles = ["%s.with_python.version=%s" % (p, v) for p in prefixes for v in values]
    for cur in ("3.12", [3, 12], "3.5.2", [2, 7], "3.10", [3, 1]):
        for op in ("eq", "ge", "le"):
            for t in singles:
                yield {"kind": "version", "cur": cur, "op": op, "tags": [t]}
            for a, b in itertools.combinations(singles, 2):
                yield {"kind": "version", "cur": cur, "op": op, "tags": [a, b]}


def check_composite(res, case):
    from behave.tag_matcher import CompositeTagMatcher
    tags = case["tags"]
    members = case["members"]
    verdicts = [member_expected(tags, m) for m in members]
    if any(v is None for v in verdicts):
        res.label("ambiguous")
        res.evals = 0
        return res
    expected = any(verdicts)
    where = "tags=%s members=%s (own member verdicts %s)" % (tags, members, verdicts)
    try:
        matcher = CompositeTagMatcher([build_member(m) for m in members])
        excl = matcher.should_exclude_with(list(tags))
        run = matcher.should_run_with(list(tags))
    except Exception as e:      # noqa
        res.fail("C19.query-raises", "composite matcher raised %s: %s; %s" % (type(e).__name__, e, where))
        return res
    if bool(run) != (not excl):
        res.fail("C19.run-is-not-exclude", "should_run_with=%r but should_exclude_with=%r; %s" % (run, excl, where))
    if bool(excl) != expected:
        # is one of the members wrong on its own, or the composition?
        own_wrong = False
        for m, v in zip(members, verdicts):
            try:
                if bool(build_member(m).should_exclude_with(list(tags))) != v:
                    own_wrong = True
            except Exception:       # noqa
                own_wrong = True
        res.fail("C19.composite-member-wrong" if own_wrong else "C19.composite-matcher",
                 "composite should_exclude_with=%r, documented 'any member excludes' gives %r; %s"
                 % (excl, expected, where))
    res.label("composite-matcher", "members:%d" % min(len(members), 4))
    if len(set(verdicts)) == 2:
        res.label("composite-members-disagree")
    if any("members" in m for m in members):
        res.label("composite-nested")
    if any("pred" in m for m in members):
        res.label("composite-predicate-member")
    n_known = 0
    for m in members:
        if "values" in m:
            active, _o, _a = parse_tags(tags, m.get("cfg"))
            n_known = max(n_known, len([1 for _p, c, _v in (active or []) if c in m["values"]]))
    res.nontrivial = n_known >= 2 and len(members) >= 2
    res.label("excluded" if expected else "runs")
    return res


def _shape(d):
    return "str" if (d is None or isinstance(d, str)) else (d.get("kind"), d.get("op"))


def _bombs_only_malformed(case):
    active, _o, ambiguous = parse_tags(case["tags"], None)
    if ambiguous:
        return False
    for _prefix, category, value in active:
        if category in case["bombs"]:
            d = case["values"][category]
            if d["kind"] == "number" and _INT_RE.match(value):
                return False
            if d["kind"] == "bool" and value.lower() in (_TRUE | _FALSE if isinstance(_TRUE, (set, frozenset)) else set(_TRUE) | set(_FALSE)):
                return False
    return True


def valid_case(case):
    """Shrinking guard: reject structurally broken variants."""
    def cfg_ok(cfg):
        if not cfg:
            return True
        if cfg.get("prefixes") is not None and not cfg["prefixes"]:
            return False
        return cfg.get("sep") != ""

    def member_ok(m):
        if "members" in m:
            return all(member_ok(x) for x in m["members"])
        if "pred" in m:
            return True
        return cfg_ok(m.get("cfg")) and all(value_ok(d) for d in m["values"].values())

    def value_ok(d):
        return d is None or isinstance(d, str) or (isinstance(d, dict) and "kind" in d and "value" in d)

    if case.get("kind") == "composite":
        return all(member_ok(m) for m in case["members"])
    if case.get("kind") == "version":
        return bool(case.get("tags")) and case.get("op") in _VERSION_OPS
    if case.get("kind") == "setup":
        return (cfg_ok(case.get("cfg")) and case.get("mode") in SETUP_MODES and isinstance(case.get("overrides"), dict)
                and all(isinstance(v, str) for v in case["overrides"].values())
                and all(value_ok(d) for d in case["values"].values()))
    if case.get("kind") == "unavailable":
        return (isinstance(case.get("values"), dict) and all(value_ok(d) for d in case["values"].values())
                and case.get("mode") in ("dict", "atvp", "composite-dict") and isinstance(case.get("bombs"), list)
                and all(isinstance(case["values"].get(c), dict) and case["values"][c]["kind"] in ("number", "bool")
                        for c in case["bombs"])
                and _bombs_only_malformed(case))
    if case.get("kind") == "overlap":
        worlds = case.get("values") or []
        return (len(worlds) == 2 and all(sorted(w) == sorted(worlds[0]) for w in worlds) and bool(worlds[0])
                and all(isinstance(v, str) for w in worlds for v in w.values())
                and isinstance(case.get("defaults"), dict) and set(worlds[0]) <= set(case["defaults"])
                and all(isinstance(v, str) for v in case["defaults"].values())
                and case.get("mode") in ("atvp", "dict", "mixed")
                and all(0 <= k < 2 for k in (case.get("order") or [0])))
    if case.get("kind") == "changing":
        worlds = case.get("values") or []
        return (cfg_ok(case.get("cfg")) and len(worlds) >= 2 and all(sorted(w) == sorted(worlds[0]) for w in worlds)
                and all(value_ok(d) for w in worlds for d in w.values()) and case.get("mode") in CHANGING_MODES
                and all(_shape(w[c]) == _shape(worlds[0][c]) for w in worlds for c in w)
                and all(0 <= k < len(worlds) for k in (case.get("order") or [0])))
    return cfg_ok(case.get("cfg")) and all(value_ok(d) for v in case["values"] for d in v.values())


# ---------------------------------------------------------------------------
# (a)/(b) complete enumerations
# ---------------------------------------------------------------------------
CORE_CATEGORIES = ["a", "a.b", "c"]         # "c" is unknown to the value provider
CORE_VALUES = ["x", "xy", "y"]
CORE_ASSIGNMENTS = [{"a": va, "a.b": vb} for va in CORE_VALUES for vb in CORE_VALUES]
# ordinary tags and look-alikes that do not fit the documented schema
ORDINARY = ["foo", "wip", "with_a=x", "USE.with_a=x", "use.with_a", "use_with_a=x", "reuse.with_a=x",
            "use.without_a=x", "use.with_a:x", "a=x", "use.with=x", "notuse.with_a=x", "@use.with_a=x",
            "use.with_a.b", "not", "use"]

TYPED_TAG_VALUES = {"n": ["1", "2", "x"], "flag": ["yes", "off", "maybe", "True"], "c": ["1", "yes", "x"]}
TYPED_ASSIGNMENTS = [{"n": {"kind": "number", "op": op, "value": cur}, "flag": {"kind": "bool", "op": None, "value": b}}
                     for op in ("eq", "ne", "ge", "le", "gt", "lt") for cur in (1, 2, 3) for b in (True, False)]
TYPED_ORDINARY = ["foo", "use.with_n", "with_n=1", "use.with_flag:yes", "USE.with_n=1", "n=1"]


def _arrange(index, tags, ordinary):
    """Deterministic order variation and interleaving of ordinary tags (by running index)."""
    tags = list(tags)
    variant = index % 4
    if variant == 1:
        tags.reverse()
    elif variant == 2 and len(tags) > 1:
        tags = tags[1:] + tags[:1]
    n_ord = (index // 4) % 3
    for j in range(n_ord):
        extra = ordinary[(index // 12 + 5 * j) % len(ordinary)]
        pos = (index // 5 + j) % (len(tags) + 1)
        tags.insert(pos, extra)
    return tags


def _window(seq, start, n):
    if n >= len(seq):
        return seq
    return [seq[(start + j * (len(seq) // n)) % len(seq)] for j in range(n)]


def core_enumeration(sizes, n_values=None, n_modes=None):
    """All tag multisets of the given sizes; per multiset all (or a rotating window of) value assignments / modes."""
    universe = ["%s.with_%s=%s" % (p, c, v) for p in DEFAULT_PREFIXES for c in CORE_CATEGORIES for v in CORE_VALUES]
    index = 0
    for size in sizes:
        for combo in itertools.combinations_with_replacement(universe, size):
            index += 1
            yield {"tags": _arrange(index, combo, ORDINARY),
                   "values": _window(CORE_ASSIGNMENTS, index, n_values or 99),
                   "modes": _window(MODES, index, n_modes or 99)}


def typed_enumeration(sizes, n_values=None, n_modes=None):
    universe = ["%s.with_%s=%s" % (p, c, v) for p in DEFAULT_PREFIXES for c in ("n", "flag", "c")
                for v in TYPED_TAG_VALUES[c]]
    index = 0
    for size in sizes:
        for combo in itertools.combinations_with_replacement(universe, size):
            index += 1
            yield {"tags": _arrange(index, combo, TYPED_ORDINARY),
                   "values": _window(TYPED_ASSIGNMENTS, index * 7, n_values or 99),
                   "modes": _window(MODES, index, n_modes or 99)}


# ---------------------------------------------------------------------------
# (c)-(e) Hypothesis strategies
# ---------------------------------------------------------------------------
CATEGORY_POOL = ["a", "a.b", "ab", "b", "os", "browser", "t.min_value", "t.max_value", "python.feature.x", "X", "c_1", "n"]
STRING_POOL = ["x", "xy", "y", "X", "chrome", "Safari", "win32", "1", "10", "yes", "a=b", "x.y", "x:y", "-", "true"]
PREFIX_POOL = ["use", "not", "active", "not_active", "only", "run_if", "not_if", "skip", "knot", "denote",
               "annotated", "notable", "only_on", "x", "not_"]
SEPARATOR_POOL = ["=", ":", "==", ":=", "~", "-", "/", "=>", "@", "#", "%", ","]
META_SEPARATOR_POOL = [".", "|", "+", "?", "*", "$", "^", "(", "[", "\\", "..", "=|", ".="]
NUMBER_OPS = [None, "eq", "ne", "ge", "le", "gt", "lt"]
NUMBER_TAGS_BAD = ["abc", "", "1.5", "3x", "0x10", "1e3", "--1", "one"]
BOOL_TAGS = list(_TRUE + _FALSE) + ["True", "YES", "On", "False", "NO", "oFF"]
BOOL_TAGS_BAD = ["maybe", "", "ja", "2", "y", "t"]


def _sample(rnd, pool, max_size, min_size=0):
    return rnd.sample(pool, rnd.randint(min_size, min(max_size, len(pool))))


def gen_value_desc(rnd):
    """-> (current value description, tag values worth using for it)"""
    kind = rnd.choice(["plain", "plain", "value", "number", "number", "bool"])
    if kind == "plain":
        cur = rnd.choice(STRING_POOL)
        return cur, [cur, cur, cur + "y", cur[:-1]] + STRING_POOL[:4]
    lazy = rnd.random() < 0.5
    getter = rnd.choice(["lambda", "lambda", "partial", "object"]) if lazy else None
    if kind == "value":
        op = rnd.choice([None, "eq", "ne", "ge", "le", "contains", "prefix", "ieq", "count", "regex"])
        if op == "contains":
            cur = _sample(rnd, STRING_POOL, 3)
            hints = list(cur) * 2 + STRING_POOL[:3]
        elif op in ("count", "regex"):
            cur = rnd.choice(STRING_POOL)
            hints = [cur, cur + cur, cur + "y" + cur, "y" + cur, cur[:-1]] + STRING_POOL[:3]
        else:
            cur = rnd.choice(STRING_POOL)
            hints = [cur, cur, cur + "y", cur[:-1], cur.upper(), cur.lower()] + STRING_POOL[:3]
        return {"kind": "value", "op": op, "value": cur, "lazy": lazy, "getter": getter}, hints
    if kind == "number":
        op = rnd.choice(NUMBER_OPS + ["contains", "bitand"])
        if op == "contains":
            cur = _sample(rnd, list(range(-2, 13)), 3)
            base = cur[0] if cur else 0
        else:
            cur = rnd.randint(-2, 12)
            base = cur
        hints = [str(base), str(base), str(base + 1), str(base - 1), "+%d" % abs(base), "0%d" % abs(base),
                 rnd.choice(NUMBER_TAGS_BAD)]
        return {"kind": "number", "op": op, "value": cur, "lazy": lazy, "getter": getter}, hints
    op = rnd.choice([None, "eq", "ne"])
    words = rnd.random() < 0.3
    return ({"kind": "bool", "op": op, "value": rnd.random() < 0.5, "lazy": lazy, "getter": getter, "words": words},
            BOOL_TAGS + [rnd.choice(BOOL_TAGS_BAD)] + (["enabled", "disabled", "Enabled"] * 2 if words else ["enabled"]))


def _lookalikes(prefix, category, sep, value):
    return ["with_%s%s%s" % (category, sep, value),
            "%s.with_%s" % (prefix, category),
            "%s_with_%s%s%s" % (prefix, category, sep, value),
            "%s.with%s%s%s" % (prefix, category, sep, value),
            "%s.with_%s%s%s" % (prefix.upper(), category, sep, value),
            "x%s.with_%s%s%s" % (prefix, category, sep, value),
            "%s.with_%s%s%s" % (prefix, category, "!" if sep != "!" else "=", value),
            "use.with_%s=%s" % (category, value),       # default schema: ordinary under a custom configuration
            "not.with_%s=%s" % (category, value),
            "%s%s%s" % (category, sep, value),
            "foo", "wip", "slow"]


def gen_world(rnd, separators=SEPARATOR_POOL, p_custom=0.6, dotted=True):
    """-> (cfg, values, tags)"""
    cfg = None
    prefixes = list(DEFAULT_PREFIXES)
    sep = "="
    if rnd.random() < p_custom:
        cfg = {"via": rnd.choice(["ctor", "ctor", "subclass", "attr"])}
        what = rnd.randint(1, 7)
        if what & 1:
            prefixes = _sample(rnd, PREFIX_POOL, 4, 1)
            cfg["prefixes"] = prefixes
        if what & 2:
            sep = rnd.choice(separators)
            cfg["sep"] = sep
        if what & 4:
            cfg["ignore_unknown"] = rnd.random() < 0.5
    pool = CATEGORY_POOL if dotted else [c for c in CATEGORY_POOL if "." not in c]
    cats = _sample(rnd, pool, 4, 1)
    n_known = rnd.randint(0, len(cats))
    values = {}
    hints = {}
    for i, cat in enumerate(cats):
        if i < n_known:
            values[cat], hints[cat] = gen_value_desc(rnd)
            if rnd.random() < 0.06:
                values[cat] = None      # known category, current value unset (e.g. os.environ.get(...) is None)
        else:
            hints[cat] = STRING_POOL[:5] + ["1", "yes"]
    tags = []
    for _ in range(rnd.randint(0, 6)):
        what = rnd.randint(0, 9)
        cat = rnd.choice(cats)
        prefix = rnd.choice(prefixes)
        value = rnd.choice(hints[cat])
        if not dotted:
            value = value.replace(".", "")
        if what <= 6:
            tags.append("%s.with_%s%s%s" % (prefix, cat, sep, value))
        elif what == 7 and tags:
            tags.append(rnd.choice(tags))           # duplicate
        else:
            tags.append(rnd.choice(_lookalikes(prefix, cat, sep, value)))
    return cfg, values, tags


def gen_matrix_case(rnd):
    cfg, values, tags = gen_world(rnd)
    modes = _sample(rnd, MODES, 3, 1)
    if not values and rnd.random() < 0.5:
        modes.append("none")
    case = {"tags": tags, "values": [values], "modes": modes}
    if cfg is not None:
        case["cfg"] = cfg
    return case


def gen_setup_case(rnd):
    cfg, values, tags = gen_world(rnd, p_custom=0.3)
    values = {c: d for c, d in values.items() if isinstance(d, str)}    # userdata holds text
    tag_values = [t.split("=", 1)[1] for t in tags if "=" in t and not t.endswith("=")]
    overrides = {}
    for c in sorted(values):
        if rnd.random() < 0.6:
            overrides[c] = rnd.choice(tag_values + [values[c], values[c] + "x", "other"])
    if rnd.random() < 0.4:
        overrides["zz.unknown"] = rnd.choice(tag_values + ["x"])
    case = {"kind": "setup", "tags": tags, "values": values, "overrides": overrides, "mode": rnd.choice(SETUP_MODES),
            "asked_before": rnd.random() < 0.3, "matcher_first": rnd.random() < 0.5}
    if cfg is not None:
        case["cfg"] = cfg
    return case


def gen_changing_case(rnd):
    cfg, values, tags = gen_world(rnd, p_custom=0.3)
    other = {}
    for c, d in values.items():
        if d is None:
            other[c] = "other"
        elif isinstance(d, str):
            pool = [d, d + "x", "other"] + [t.split("=", 1)[1] for t in tags if "=" in t and not t.endswith("=")]
            other[c] = rnd.choice(pool)
        else:
            nd = dict(d)
            nd["lazy"] = False
            nd["words"] = False
            if d["kind"] == "number" and isinstance(d["value"], int):
                nd["value"] = d["value"] + rnd.choice([-2, -1, 1, 2])
            elif d["kind"] == "bool":
                nd["value"] = not d["value"]
            other[c] = nd
    values = {c: (dict(d, lazy=False, words=False) if isinstance(d, dict) else d) for c, d in values.items()}
    case = {"kind": "changing", "tags": tags, "values": [values, other], "mode": rnd.choice(CHANGING_MODES),
            "order": rnd.choice([[0, 1, 0], [0, 1], [1, 0, 1], [0, 0, 1, 1, 0]]),
            "getter": rnd.choice(["lambda", "lambda", "partial", "object"])}
    if rnd.random() < 0.3 and values:
        case["late"] = [rnd.choice(sorted(values))]
    if cfg is not None:
        case["cfg"] = cfg
    return case


def gen_literal_sep_case(rnd):
    _cfg, values, tags = gen_world(rnd, p_custom=0.0, dotted=False)
    sep = rnd.choice(META_SEPARATOR_POOL)
    cfg = {"sep": sep, "via": rnd.choice(["ctor", "subclass"])}
    # re-render the tags with the special separator; some keep "=": ordinary tags under the custom separator
    new_tags = [tag if rnd.randint(0, 3) == 0 else tag.replace("=", sep, 1) for tag in tags]
    return {"kind": "literal-sep", "tags": new_tags, "values": [values], "modes": ["dict"], "cfg": cfg}


def gen_composite_case(rnd):
    cfg, values, tags = gen_world(rnd, p_custom=0.3)
    members = []
    cats = sorted(values)
    for _ in range(rnd.randint(0, 4)):
        what = rnd.randint(0, 9)
        if what <= 6:
            subset = _sample(rnd, cats, len(cats))
            m = {"values": {c: values[c] for c in sorted(subset)},
                 "mode": rnd.choice(["dict", "vo", "atvp", "getonly", "composite-provider", "composite-provider-lazy"])}
            if cfg is not None:
                m["cfg"] = cfg
            members.append(m)
        elif what == 7:
            members.append({"pred": "has", "tag": rnd.choice(tags + ["foo"])})
        elif what == 8:
            members.append({"pred": "const", "value": rnd.randint(0, 4) == 0})
        elif members:
            k = rnd.randint(1, len(members))
            members = members[:-k] + [{"members": members[-k:]}]
    return {"kind": "composite", "tags": tags, "members": members}


def _strategy(builder):
    """All random choices come from a Random instance that Hypothesis seeds (st.randoms): the strategies with
    dozens of single draws cost ~5 ms per case, this one ~0.1 ms."""
    return st.randoms(use_true_random=True).map(builder)


def explore(rec):
    quick = rec.tier == "quick"
    # (a) string categories
    if quick:
        rec.enum("core-multisets<=3:all-values:rotating-3-providers", core_enumeration([0, 1, 2, 3], None, 3))
        rec.enum("core-multisets=4:rotating-2-values:rotating-provider", core_enumeration([4], 2, 1))
    else:
        rec.enum("core-multisets<=4:all-values:all-providers", core_enumeration([0, 1, 2, 3, 4]))
    # (b) typed categories
    if quick:
        rec.enum("typed-multisets<=2:all-values:rotating-3-providers", typed_enumeration([0, 1, 2], None, 3))
        rec.enum("typed-multisets=3:rotating-4-values:rotating-provider", typed_enumeration([3], 4, 1))
    else:
        rec.enum("typed-multisets<=3:all-values:all-providers", typed_enumeration([0, 1, 2, 3]))
    rec.enum("version-value-objects", version_enumeration())
    # (c)-(e)
    rec.hyp("random-configuration", _strategy(gen_matrix_case), 60000 if quick else 1500000)
    rec.hyp("composite-matcher", _strategy(gen_composite_case), 24000 if quick else 400000)
    rec.hyp("configured-values", _strategy(gen_setup_case), 12000 if quick else 200000)
    rec.hyp("changing-lazy-values", _strategy(gen_changing_case), 12000 if quick else 200000)
    rec.hyp("regex-special-separator", _strategy(gen_literal_sep_case), 6000 if quick else 60000)
    rec.hyp("malformed-tags-with-unavailable-current-value", _strategy(gen_unavailable_case), 4000 if quick else 60000)
    rec.hyp("overlapping-providers", _strategy(gen_overlap_case), 6000 if quick else 100000)


def required_labels(tier):
    return (["size:0", "size:1", "size:2", "size:3", "size:4", "excluded", "runs", "ordinary-tag", "no-active-tag",
             "unknown-category", "multi-category", "positive+negative-same-category",
             "kind:value", "kind:number", "kind:bool", "lazy-value-object", "malformed-number", "malformed-bool",
             "custom-compare", "custom-compare:truthy-answer", "custom-prefixes", "prefix-contains-not-but-positive", "custom-separator",
             "unknown-not-ignored", "via:subclass", "via:attr", "regex-special-separator",
             "composite-matcher", "composite-members-disagree", "composite-nested", "composite-predicate-member"]
            + ["provider:" + m for m in MODES + ["none"]]
            + ["setup_active_tag_values", "setup:overrides-known-category", "setup:unknown-category-in-data",
               "setup:matcher-created-before-the-values"]
            + ["setup:" + m for m in SETUP_MODES]
            + ["changing-lazy-values", "changing:verdict-flips", "changing:category-learned-after-the-first-decision",
               "lazy-getter:partial", "lazy-getter:object", "bool-subclass-with-more-words"] + ["changing:" + m for m in CHANGING_MODES]
            + ["malformed-with-unavailable-current-value", "overlapping-providers", "overlap:providers-disagree",
               "overlap:first-decision-before-the-value-exists", "overlap:atvp", "overlap:dict", "overlap:mixed"])


KNOWN_PREDICATES = {}


RULE = RULE + " " + ('Changing lazy values: one matcher is asked several times while the world behind the callables changes (plain mapping with lazy value objects, ActiveTagValueProvider, composite providers over mappings / providers): every decision is made against the CURRENT values.')
RULE = RULE + " " + ('Two further sub-checks: typed categories all of whose tags are malformed are decided without the current value (a lazy value that cannot be computed at that moment changes nothing); composite providers over providers that both know a category: the first one decides at every decision with its current value, also after an earlier decision at which its lazy value did not exist yet (KeyError from the callable).')
