# -*- coding: utf-8 -*-
"""C01 -- Run verdict: no false green, no false red."""
from __future__ import annotations

import copy
import itertools

from hypothesis import strategies as st

from .. import gen, refmodel, runcheck
from ..core import CaseResult
from ..program import OUTCOMES, normalize, scenario_instances

ID = "C01"
LEVEL = "exploration"
RULE = ("Cases are abstract programs (features x rules x backgrounds x scenarios x outline rows, 8 step "
        "outcomes, tags, tag expression, --stop/--dry-run/@wip, optionally one raising hook or cleanup) "
        "rendered to Gherkin and run by the real ModelRunner; plus metamorphic variants and a complete "
        "enumeration of the 1-feature/1-2 scenario/1-2 step core x 8 flag combinations. Non-trivial = at least 2 "
        "scenario instances and at least one of {non-pass outcome, deselected scenario, flag, fault}; "
        "distinct by canonical JSON hash.")
ASSUMPTIONS = [
    "step outcomes are produced by the fixed step library of vf/harness.py (outcome encoded in step text)",
    "hook/cleanup faults raise Exception or AssertionError (never KeyboardInterrupt)",
    "the reference verdict is an own interpreter written from the statement and docs (vf/refmodel.py)",
]
SIMPLIFY = {"o": lambda v: "pass" if not v.startswith("<") else None, "kw": "Given",
            "tagx": "nullable", "bg": "nullable"}
WATCHDOG_S = {"quick": 900, "thorough": 4 * 3600}


def classify(res, prog, ref):
    insts = runcheck.instances(prog)
    outcomes = set()
    for feat in prog["features"]:
        for steps in _step_lists(feat):
            for s in steps:
                outcomes.add(s["o"])
    cfg = prog.get("cfg") or {}
    flags = [f for f in ("stop", "dry_run", "wip_flag") if cfg.get(f)]
    has_fault = bool(prog.get("hook_faults") or prog.get("cleanups"))
    nonpass = any(o != "pass" for o in outcomes)
    if len(insts) >= 2 and (nonpass or ref.not_selected or flags or has_fault):
        res.nontrivial = True
    res.label("verdict:%s" % ("failed" if ref.failed else "passed"))
    for f in flags:
        res.label("flag:" + f)
    if prog.get("hook_faults"):
        res.label("fault:hook")
    if prog.get("cleanups"):
        res.label("fault:cleanup" + (":raising" if any(c["raises"] for c in prog["cleanups"]) else ":ok"))
        if prog.get("cleanup_handler") and any(c["raises"] for c in prog["cleanups"]):
            res.label("fault:cleanup:raising:own-error-handler")
    if cfg.get("continue_after_failed") and any(
            any(a in ("failed", "error") and b == "passed" for a, b in zip(sts, sts[1:]))
            for sts in (ref.steps or {}).values() if sts):
        res.label("continue-after-failed-step:passing-step-after-failing-one")
    if ref.not_selected:
        res.label("has-deselected")
    if ref.untouched:
        res.label("cut-short")
    if any(it["k"] == "r" for f in prog["features"] for it in f["items"]):
        res.label("has-rule")
    if any(inst["outline"] is not None for _, inst in insts):
        res.label("has-outline-row")
    if len(prog["features"]) > 1:
        res.label("multi-feature")
    for o in outcomes:
        if not o.startswith("<"):
            res.label("outcome:" + o)
    if runcheck.typed_texts(prog):
        res.label("one-text-several-step-types")
    if any((s.get("emit") or {}).get("relog") for f in prog["features"] for lst in _step_lists(f) for s in lst):
        res.label("step-reconfigures-logging")


def _step_lists(feat):
    if feat.get("bg"):
        yield feat["bg"]
    for item in feat["items"]:
        if item["k"] == "r":
            if item.get("bg"):
                yield item["bg"]
            for sub in item["items"]:
                yield sub["steps"]
        else:
            yield item["steps"]


def check(case):
    res = CaseResult()
    kind = case.get("kind", "run")
    if kind == "run":
        prog, ref, run = runcheck.run_and_ref(case["program"])
        runcheck.check_verdict(res, "C01.verdict", ref, run)
        classify(res, prog, ref)
    elif kind == "meta":
        check_meta(res, case)
    elif kind == "cli":
        check_cli(res, case)
    elif kind == "runner":
        check_runner(res, case)
    elif kind == "abort":
        check_abort(res, case)
    elif kind == "autoretry":
        check_autoretry(res, case)
    else:
        raise ValueError("unknown case kind %r" % kind)
    return res


# ---------------------------------------------------------------------------
# metamorphic relations (independent of the reference model)
# ---------------------------------------------------------------------------
def _verdict(prog):
    run = runcheck.run_program(copy.deepcopy(prog))
    return run


def check_meta(res, case):
    base = runcheck.resolve_faults(case["program"])
    # metamorphic variants are built for fault-free programs (fault positions are
    # indices into the hook log and would move)
    base.pop("hook_faults", None)
    base.pop("cleanups", None)
    op = case["op"]
    arg = case.get("arg", 0)
    r0 = _verdict(base)
    res.evals = 2
    if r0.escaped is not None:
        res.fail("C01.verdict.escape", "exception escaped run(): %r" % (r0.escaped,))
        return
    variant = copy.deepcopy(base)
    feats = variant["features"]
    cfg = variant.get("cfg") or {}
    label = op
    if op == "add_pass":
        # a passing scenario (or feature) is added at some position
        f = feats[arg % len(feats)]
        if any(s["o"] != "pass" for s in (f.get("bg") or [])):
            # the added scenario would inherit a non-passing background: not "a passing scenario"
            op = label = "add_passing_feature"
            feats.insert(arg % (len(feats) + 1), {"name": "ADDEDF", "tags": [], "items": [
                {"k": "s", "name": "ADDED", "tags": [],
                 "steps": [{"kw": "Given", "uid": "added1", "o": "pass"}]}]})
            f = {"items": []}
        plain = [i for i, it in enumerate(f["items"]) if it["k"] != "r"]
        pos = (arg // 7) % (len(plain) + 1)
        new = {"k": "s", "name": "ADDED", "tags": list(case.get("tags", [])),
               "steps": [{"kw": "Given", "uid": "added1", "o": "pass"}]}
        f["items"].insert(pos, new)
        # sound only when the added scenario cannot change what a later scenario does:
        # with --stop nothing changes either (it passes or is deselected)
    elif op == "add_passing_feature":
        new = {"name": "ADDEDF", "tags": [], "items": [
            {"k": "s", "name": "ADDED", "tags": [], "steps": [{"kw": "Given", "uid": "added1", "o": "pass"}]}]}
        feats.insert(arg % (len(feats) + 1), new)
    elif op == "add_deselected":
        # an element of arbitrary content that the tag expression deselects
        cfgx = cfg.get("tagx")
        if cfgx is None:
            cfg["tagx"] = ["not", ["tag", "zz_off"]]
            cfg["dialect"] = "v2"
            cfg["rv"] = 0
        else:
            cfg["tagx"] = ["and", cfgx, ["not", ["tag", "zz_off"]]]
            if cfg.get("dialect") == "v1" and refmodel.tagref.as_cnf(cfg["tagx"]) is None:
                cfg["dialect"] = "v2"
        variant["cfg"] = cfg
        # the base must be evaluated under the same (extended) expression
        base2 = copy.deepcopy(base)
        base2["cfg"] = copy.deepcopy(cfg)
        r0 = _verdict(base2)
        res.evals += 1
        f = feats[arg % len(feats)]
        plain = [i for i, it in enumerate(f["items"]) if it["k"] != "r"]
        pos = (arg // 7) % (len(plain) + 1)
        outcome = OUTCOMES[(arg // 11) % len(OUTCOMES)]
        f["items"].insert(pos, {"k": "s", "name": "OFF", "tags": ["zz_off"],
                                "steps": [{"kw": "Given", "uid": "off1", "o": outcome},
                                          {"kw": "When", "uid": "off2", "o": "fail"}]})
    elif op == "permute":
        if cfg.get("stop") or cfg.get("wip_flag"):
            res.label("meta:permute-skipped(stop)")
            return
        # permuting sibling scenarios / features must not change the verdict unless an
        # interrupt cuts the run short (then order matters by definition)
        if _has_outcome(base, "interrupt"):
            res.label("meta:permute-skipped(interrupt)")
            return
        f = feats[arg % len(feats)]
        plain = [it for it in f["items"] if it["k"] != "r"]
        rules = [it for it in f["items"] if it["k"] == "r"]
        k = (arg // 7)
        plain = _perm(plain, k)
        rules = _perm(rules, k // 5)
        f["items"] = plain + rules
        variant["features"] = _perm(feats, k // 3)
    else:
        raise ValueError(op)
    r1 = _verdict(variant)
    if r1.escaped is not None:
        res.fail("C01.verdict.escape", "exception escaped run(): %r" % (r1.escaped,))
        return
    res.label("meta:" + label)
    res.nontrivial = len(runcheck.instances(variant)) >= 2
    if bool(r0.failed) != bool(r1.failed):
        res.fail("C01.meta.%s" % op, "verdict changed from %s to %s" % (r0.failed, r1.failed))


def _has_outcome(prog, outcome):
    for f in prog["features"]:
        for steps in _step_lists(f):
            for s in steps:
                if s["o"] == outcome:
                    return True
        for item in f["items"]:
            subs = item["items"] if item["k"] == "r" else [item]
            for sub in subs:
                if sub["k"] == "o":
                    for ex in sub["ex"]:
                        for row in ex["rows"]:
                            if "interrupts" in row and outcome == "interrupt":
                                return True
    return False


def _perm(seq, k):
    seq = list(seq)
    out = []
    while seq:
        out.append(seq.pop(k % len(seq)))
        k //= 2
    return out


# ---------------------------------------------------------------------------
# CLI route: exit code == 1  <=>  verdict failed
# ---------------------------------------------------------------------------
def check_cli(res, case):
    from .. import disk
    prog = runcheck.resolve_faults(case["program"])
    ref = refmodel.simulate(prog)
    out = disk.run_cli(prog)
    res.label("cli")
    res.nontrivial = len(runcheck.instances(prog)) >= 2
    if out.returncode not in (0, 1):
        res.fail("C01.cli.exit-code", "exit code %r; stderr: %s" % (out.returncode, out.stderr[-400:]))
    elif (out.returncode == 1) != bool(ref.failed):
        res.fail("C01.cli.exit-code", "exit code %d but expected verdict failed=%s (%s)\n%s"
                 % (out.returncode, ref.failed, ref.reasons[:2], out.stdout[-600:]))


def check_abort(res, case):
    """The run is aborted by user code (context.abort() in a step or hook) or by a
    KeyboardInterrupt that escapes from a hook: the run must report failure, whatever else
    happens (every executed step passes)."""
    prog = copy.deepcopy(case["program"])
    normalize(prog)
    base = refmodel.simulate(prog)
    how = case["how"]
    n = len(base.hooks)
    if how in ("hook-abort", "hook-interrupt"):
        if n == 0:
            res.label("abort:not-placeable")
            return
        k = case["at"] % n
        prog["hook_faults"] = [[k, "abort" if how == "hook-abort" else "KeyboardInterrupt"]]
        res.label("abort:%s:%s" % (how, base.hooks[k][0]))
    else:
        if not base.aborted:
            res.label("abort:not-placeable")    # the aborting step is not executed (deselected / dry-run)
            return
        res.label("abort:step")
    run = runcheck.run_program(prog)
    res.nontrivial = len(runcheck.instances(prog)) >= 2
    if isinstance(run.escaped, KeyboardInterrupt) and how == "hook-interrupt":
        # an interrupt in before_all / after_all leaves run() as KeyboardInterrupt: no success is reported
        res.label("abort:interrupt-escaped")
    elif run.escaped is not None:
        res.fail("C01.verdict.escape", "exception escaped run(): %r" % (run.escaped,))
    elif not run.failed:
        res.fail("C01.verdict.false-green", "the run was aborted (%s) but reports success" % how)


def check_autoretry(res, case):
    """behave.contrib.scenario_autoretry (outlines patched as a whole or row by row): the verdict is the one of
    the final attempts -- a scenario that still fails in its last attempt makes the run fail."""
    from . import c03
    base, run = c03.autoretry_run(case)
    expected = c03.final_attempt_program(base, case["attempts"])
    ref = refmodel.simulate(runcheck.resolve_faults(expected))
    if base.get("hook_faults_attempts") and run.escaped is None and run.failed and not ref.failed:
        # a step hook raised in an attempt that was retried away: "a hook raises" -- the run may report failure
        res.label("autoretry:hook-raised-in-an-earlier-attempt")
    else:
        runcheck.check_verdict(res, "C01.autoretry.verdict", ref, run)
    res.label("autoretry", "autoretry:verdict:%s" % ("failed" if ref.failed else "passed"))
    if case.get("whole_outlines"):
        res.label("autoretry:outline-as-a-whole")
    res.nontrivial = True


def check_runner(res, case):
    """Standard Runner on a scratch project (paths, environment.py, steps directory, file parsing)."""
    from .. import disk
    prog = runcheck.resolve_faults(case["program"])
    ref = refmodel.simulate(prog)
    proj = disk.Project(prog)
    try:
        run = disk.run_inproc(proj, disk.cli_args(prog.get("cfg") or {}) + ["-f", "null", "features"], prog)
    finally:
        proj.close()
    res.label("runner-route")
    res.nontrivial = len(runcheck.instances(prog)) >= 2
    if run.escaped is not None:
        res.fail("C01.verdict.escape", "Runner.run() raised %s: %s" % (type(run.escaped).__name__, run.escaped))
    elif bool(run.failed) != bool(ref.failed):
        res.fail("C01.runner.verdict", "Runner.run() returned failed=%s, expected %s (%s)"
                 % (run.failed, ref.failed, ref.reasons[:2]))
    if (prog.get("cfg") or {}).get("wip_flag"):
        res.label("flag:--wip")


# ---------------------------------------------------------------------------
# generation
# ---------------------------------------------------------------------------
def core_enumeration():
    """1 feature, 1-2 scenarios, 1-2 steps each, all 8 outcomes per step, x 8 flag combos."""
    shapes = [(1,), (2,), (1, 1), (1, 2), (2, 1), (2, 2)]
    for stop, dry, wip in itertools.product([False, True], repeat=3):
        for shape in shapes:
            nsteps = sum(shape)
            for outs in itertools.product(OUTCOMES, repeat=nsteps):
                it = iter(outs)
                items = []
                for n in shape:
                    items.append({"k": "s", "tags": ["wip"] if wip else [],
                                  "steps": [{"kw": "Given", "o": next(it)} for _ in range(n)]})
                cfg = {}
                if stop:
                    cfg["stop"] = True
                if dry:
                    cfg["dry_run"] = True
                yield {"kind": "run", "program": {"features": [{"tags": [], "items": items}], "cfg": cfg}}


def run_case_st(**kw):
    kw.setdefault("relog", True)
    return gen.program_st(**kw).map(lambda p: {"kind": "run", "program": p})


def meta_case_st():
    return st.builds(lambda p, op, arg, tags: {"kind": "meta", "program": p, "op": op, "arg": arg,
                                               "tags": tags},
                     gen.program_st(faults=False, max_features=2),
                     st.sampled_from(["add_pass", "add_passing_feature", "add_deselected", "permute"]),
                     st.integers(0, 5000), gen.tags_st(1, ["a", "b"]))


@st.composite
def continue_case_st(draw):
    prog = draw(gen.program_st(faults=False, max_features=2, outcomes=["pass", "pass", "fail", "raise"], with_async=False,
                               cfg=gen.cfg_st(flags=("stop",), p_tags=0.3)))
    prog["cfg"]["continue_after_failed"] = True
    return {"kind": "cli" if draw(st.integers(0, 49)) == 0 else "run", "program": prog}


@st.composite
def abort_case_st(draw):
    """All steps pass; the run is aborted by a step (context.abort()), by a hook (context.abort())
    or by a KeyboardInterrupt raised in a hook."""
    prog = draw(gen.program_st(faults=False, max_features=2, outcomes=["pass"],
                               cfg=gen.cfg_st(flags=("stop",), p_tags=0.3)))
    how = draw(st.sampled_from(["step", "hook-abort", "hook-abort", "hook-interrupt"]))
    if how == "step":
        steps = [s for f in prog["features"] for lst in _step_lists(f) for s in lst if not s["o"].startswith("<")]
        if steps:
            victim = steps[draw(st.integers(0, len(steps) - 1))]
            victim["o"] = "abort"
            victim.pop("a", None)
    return {"kind": "abort", "program": prog, "how": how, "at": draw(st.integers(0, 10000))}


@st.composite
def autoretry_outline_case(draw):
    """An outline patched as a whole whose rows end differently (placeholder step), next to plain scenarios."""
    from ..program import PHRASE
    rows = [[PHRASE[draw(st.sampled_from(["pass", "pass", "fail", "raise"]))]] for _ in range(draw(st.integers(2, 4)))]
    outline = {"k": "o", "tags": [], "steps": [{"kw": "Given", "o": "pass"}, {"kw": "When", "o": "<x>"}],
               "ex": [{"tags": [], "cols": ["x"], "rows": rows[:draw(st.integers(1, len(rows)))], "name": u""}]}
    rest = rows[len(outline["ex"][0]["rows"]):]
    if rest:
        outline["ex"].append({"tags": [], "cols": ["x"], "rows": rest, "name": u"more"})
    items = [outline]
    if draw(st.booleans()):
        items.insert(draw(st.integers(0, 1)), {"k": "s", "tags": [], "steps": [{"kw": "Given", "o": "pass"}]})
    return {"kind": "autoretry", "program": {"features": [{"tags": [], "items": items}], "cfg": {}},
            "attempts": draw(st.integers(2, 3)), "whole_outlines": draw(st.sampled_from([True, True, False]))}


def explore(rec):
    quick = rec.tier == "quick"
    rec.enum("core-enumeration", core_enumeration())
    rec.hyp("random-programs", run_case_st(typed=True), 5000 if quick else 120000)
    rec.hyp("metamorphic", meta_case_st(), 1500 if quick else 30000)
    rec.hyp("cli", run_case_st(max_features=2, typed=True).map(lambda c: dict(c, kind="cli")),
            48 if quick else 640)
    rec.hyp("runner-route", run_case_st(max_features=2, typed=True, cfg=gen.cfg_st(flags=("stop", "dry_run", "wip_flag"))).map(
        lambda c: dict(c, kind="runner")), 1200 if quick else 30000)
    # the documented switch Scenario.continue_after_failed_step: the steps after a failing one still run (and may pass);
    # the scenario and the run have failed all the same (in-process and as exit code of the child process)
    rec.hyp("continue-after-failed-step", continue_case_st(), 800 if quick else 25000)
    rec.hyp("aborted-runs", abort_case_st(), 1500 if quick else 30000)
    from . import c03
    rec.hyp("autoretry", c03.autoretry_case(), 700 if quick else 15000)
    rec.hyp("autoretry-outline-rows", autoretry_outline_case(), 400 if quick else 6000)
    rec.hyp("wip-flag", run_case_st(max_features=2, cfg=gen.cfg_st(flags=("wip_flag", "wip_flag", "dry_run"))),
            800 if quick else 15000)


def required_labels(tier):
    return ["verdict:failed", "verdict:passed", "flag:stop", "flag:dry_run", "fault:hook",
            "fault:cleanup:raising", "has-deselected", "cut-short", "has-rule", "has-outline-row",
            "meta:add_pass", "meta:add_deselected", "meta:permute", "cli", "runner-route", "flag:wip_flag", "abort:step",
            "abort:hook-abort:before_scenario", "abort:hook-interrupt:before_scenario", "autoretry",
            "autoretry:outline-as-a-whole", "autoretry:verdict:failed", "autoretry:verdict:passed"] + \
           ["outcome:" + o for o in OUTCOMES] + ["outcome:typed", "one-text-several-step-types", "step-reconfigures-logging",
                                                 "fault:cleanup:raising:own-error-handler", "continue-after-failed-step:passing-step-after-failing-one"]


KNOWN_PREDICATES = {}


RULE = RULE + " " + ('Further sub-checks: run-time exclusion (element.skip() in a before-hook), hooks that read element statuses, step texts bound per step type (passing @given / failing @then / no @when definition of one text), and behave.contrib.scenario_autoretry (outlines patched as a whole or row by row): the verdict is that of the final attempts.')
RULE = RULE + " " + ('Passing steps may reconfigure logging for good (root handlers cleared, basicConfig(force=True), dictConfig), as an application under test does.')
RULE = RULE + " " + ('Half of the programs with cleanups install their own handler for cleanup errors in before_all (returning True / None, or the built-in ignore handler): a raising cleanup still fails the run.')
