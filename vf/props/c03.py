# -*- coding: utf-8 -*-
"""C03 -- Status roll-up of scenario, outline, rule, feature follows the documented table."""
from __future__ import annotations

import copy
import itertools

from hypothesis import strategies as st

from .. import gen, refmodel, runcheck
from ..core import CaseResult
from ..harness import run_program
from ..program import iter_items

ID = "C03"
LEVEL = "exploration"
RULE = ("(a) random programs of the C01 generator (incl. --stop, abort, hook faults, raising cleanups, dry-run, "
        "deselection) are run and the status of every scenario / outline / rule / feature is checked against a RELATION "
        "over the actual statuses of its children; (b) the Status enum is enumerated completely for the classification "
        "claim; (c) real Scenario / ScenarioOutline / Rule / Feature objects get every tuple of child statuses up to length 4 "
        "(complete); (d) the same model objects are re-run (new runner with/without reset, and scenario auto-retry) with "
        "different outcomes per attempt and compared with a fresh model. Non-trivial = a container with >= 2 children of "
        ">= 2 different statuses, or a run cut short.")
ASSUMPTIONS = [
    "containers without children are out of scope (as in the statement)",
    "which of error/failed wins when both occur inside one element is left open",
    "own hook failure is taken from the reference model for runs with raising hooks only (element names unique); otherwise "
    "(interrupts, aborts, run-time skips, re-runs) from the element's public hook_failed flag (attribution is C12's subject)",
]
SIMPLIFY = {"o": lambda v: "pass" if not v.startswith("<") and v != "act" else None, "tagx": "nullable",
            "bg": "nullable"}
WATCHDOG_S = {"quick": 900, "thorough": 4 * 3600}

ERROR_CLASS = {"error", "hook_error", "undefined", "pending", "cleanup_error"}
PASSED_LIKE = {"passed", "pending_warn", "xfailed", "xpassed"}
UNTESTED_LIKE = {"untested", "untested_pending", "untested_undefined"}
STEP_STATUSES = ["untested", "skipped", "passed", "failed", "error", "hook_error", "undefined",
                 "pending", "pending_warn", "untested_pending", "untested_undefined"]
CONTAINER_CHILD_STATUSES = ["untested", "skipped", "passed", "failed", "error", "hook_error"]


def admissible(children, hook_failed=False, cleanup_failed=False):
    """The documented relation: set of statuses an element may have."""
    if hook_failed and cleanup_failed:
        return {"hook_error", "error"}
    if hook_failed:
        return {"hook_error"}
    if cleanup_failed:
        return {"error"}
    has_e = any(c in ERROR_CLASS for c in children)
    has_f = any(c == "failed" for c in children)
    if has_e and has_f:
        return {"error", "failed"}
    if has_e:
        return {"error"}
    if has_f:
        return {"failed"}
    nonskipped = [c for c in children if c != "skipped"]
    if not nonskipped:
        return {"skipped"}
    if all(c in PASSED_LIKE for c in nonskipped):
        return {"passed"}
    if all(c in UNTESTED_LIKE for c in nonskipped):
        return {"untested"}
    # executed and not-executed children mixed, nothing failed: not passed, not skipped
    return {"failed", "untested"}


def reason(actual, allowed):
    if actual == "skipped":
        return "skipped-only-if-all-skipped"
    if actual == "passed":
        return "passed-only-if-all-nonskipped-passed"
    if allowed & {"error", "failed", "hook_error"}:
        return "error-or-failure-lost"
    return "wrong-status"


def check_element(res, kind, name, actual, children, hook_failed=False, cleanup_failed=False):
    if not children:
        return
    allowed = admissible(children, hook_failed, cleanup_failed)
    if actual not in allowed:
        res.fail("C03.%s.%s" % (kind, reason(actual, allowed)),
                 "%s %r has status %s but its children %s%s allow only %s"
                 % (kind, name, actual, children,
                    " (own hook failed)" if hook_failed else (" (own cleanup failed)" if cleanup_failed else ""),
                    sorted(allowed)),
                 kind=kind, actual=actual, children=list(children), own_fault=bool(hook_failed or cleanup_failed))
    if len(children) >= 2 and len(set(children)) >= 2:
        res.nontrivial = True


def check_reportable(res, features):
    """Every status in the model after a run is a reportable one (never 'executing' / 'unknown')."""
    from behave.model import Rule, ScenarioOutline
    def visit(kind, elem):
        name = elem.status.name
        if name in ("executing", "unknown"):
            res.fail("C03.%s.not-reportable" % kind, "%s %r is left with status %s after the run" % (kind, elem.name, name))
    for f in features:
        visit("feature", f)
        for x in f.run_items:
            if isinstance(x, Rule):
                visit("rule", x)
        for s in f.walk_scenarios(with_outlines=True):
            visit("outline" if isinstance(s, ScenarioOutline) else "scenario", s)
            if not isinstance(s, ScenarioOutline):
                for step in s.all_steps:
                    visit("step", step)


def check_model(res, features, ref=None):
    from behave.model import Rule, ScenarioOutline
    cleanup_failed = set(ref.cleanup_error_elems) if ref is not None else set()
    # whose hooks raised is taken from the reference model (which hook call raised is generated; attribution to the
    # element is C12's subject and holds there), not from the flags of the model under test -- unless the run
    # contained interrupts / aborts / run-time skips, whose effect on later hooks the flags describe
    hook_truth = None
    if ref is not None and not (set(getattr(ref, "fault_kinds", ())) - set(["Exception", "AssertionError", "Exception0",
                                                                               "AssertionError0"])):
        hook_truth = set(ref.hook_error_elems)

    def own_hook_failed(kind, elem):
        if hook_truth is not None and names_count.get((kind, elem.name), 0) == 1:
            return (kind, elem.name) in hook_truth
        return bool(elem.hook_failed)

    names_count = {}
    for f in features:
        names_count[("feature", f.name)] = names_count.get(("feature", f.name), 0) + 1
        for x in f.run_items:
            if isinstance(x, Rule):
                names_count[("rule", x.name)] = names_count.get(("rule", x.name), 0) + 1
        for s in f.walk_scenarios():
            names_count[("scenario", s.name)] = names_count.get(("scenario", s.name), 0) + 1

    # NOTE: the status of an element is read BEFORE its children are looked at, as a
    #       reporter would do (reading .scenarios of an outline builds its rows lazily).
    def scen(s):
        actual = s.status.name
        children = [st.status.name for st in s.all_steps]
        check_element(res, "scenario", s.name, actual, children, own_hook_failed("scenario", s),
                      ("scenario", s.name) in cleanup_failed)
        return s.status.name

    def item(x):
        actual = x.status.name
        if isinstance(x, Rule):
            children = [item(y) for y in x.run_items]
            check_element(res, "rule", x.name, actual, children, own_hook_failed("rule", x),
                          ("rule", x.name) in cleanup_failed)
            return x.status.name
        if isinstance(x, ScenarioOutline):
            children = [scen(y) for y in x.scenarios]
            check_element(res, "outline", x.name, actual, children)
            return x.status.name
        return scen(x)

    for f in features:
        actual = f.status.name
        children = [item(x) for x in f.run_items]
        check_element(res, "feature", f.name, actual, children, own_hook_failed("feature", f),
                      ("feature", f.name) in cleanup_failed)


def check(case):
    res = CaseResult()
    kind = case["kind"]
    if kind == "run":
        prog, ref, run = runcheck.run_and_ref(case["program"])
        if run.escaped is not None:
            res.fail("C03.escape", "exception escaped run(): %r" % (run.escaped,))
            return res
        check_model(res, run.features, ref)
        if ref.untouched:
            res.nontrivial = True
            res.label("cut-short")
        if prog.get("hook_faults"):
            res.label("hook-fault")
        if any(c["raises"] for c in prog.get("cleanups", [])):
            res.label("raising-cleanup")
        if (prog.get("cfg") or {}).get("dry_run"):
            res.label("dry-run")
        if ref.not_selected and not ref.selected:
            res.label("all-deselected")
        if ref.untouched and case.get("pool") == "aborted":
            from .. import tagref
            ast = refmodel.tag_ast(prog.get("cfg") or {})
            if any(inst["name"] in set(ref.untouched) and not tagref.evaluate(ast, refmodel.effective_tags(feat, inst))
                   for feat, inst in runcheck.instances(prog)):
                res.label("aborted-without-failure:deselected-never-reached")
        res.label("run")
    elif kind == "interrupted":
        # Ctrl-C arrives while a HOOK runs (a step catches its own interrupt): the run is cut short; what the model
        # then says follows the table all the same, and every status is one of the reportable ones
        prog = runcheck.resolve_faults(case["program"])
        run = run_program(prog)
        if isinstance(run.escaped, KeyboardInterrupt):
            res.label("interrupt-in-hook:escaped")      # before_all / after_all: the interrupt leaves run() itself
            return res
        if run.escaped is not None:
            res.fail("C03.escape", "exception escaped run(): %r" % (run.escaped,))
            return res
        check_reportable(res, run.features)
        check_model(res, run.features, None)
        at = [h[0] for i, h in enumerate(run.hooks) if [i, "KeyboardInterrupt"] in [list(x) for x in prog.get("hook_faults") or []]]
        res.label("interrupt-in-hook")
        for name in at:
            res.label("interrupt-in-hook:" + name)
        res.nontrivial = bool(at)
    elif kind == "enum-status":
        check_status_enum(res)
    elif kind == "synthetic":
        check_synthetic(res, case)
    elif kind == "rerun":
        check_rerun(res, case)
    elif kind == "autoretry":
        check_autoretry(res, case)
    else:
        raise ValueError(kind)
    return res


# ---------------------------------------------------------------------------
# (b) classification of the status enumeration
# ---------------------------------------------------------------------------
def check_status_enum(res):
    from behave.model_core import Status
    reportable = [s for s in Status if s.name not in ("unknown", "executing")]
    res.evals = len(reportable)
    res.nontrivial = True
    res.label("status-enum")
    for s in reportable:
        classes = {
            "passed-like": s.is_passed(),
            "failure": s.is_failure(),
            "error": s.is_error(),
            "skipped": s == Status.skipped,
            "untested": s.is_untested(),
        }
        hits = [k for k, v in classes.items() if v]
        if len(hits) != 1:
            res.fail("C03.classification.exactly-one", "Status.%s is classified as %s" % (s.name, hits))
            continue
        expect = ("error" if s.name in ERROR_CLASS else "failure" if s.name == "failed"
                  else "passed-like" if s.name in PASSED_LIKE else "skipped" if s.name == "skipped"
                  else "untested")
        if hits[0] != expect:
            res.fail("C03.classification.class", "Status.%s is %s, documented as %s" % (s.name, hits[0], expect))
        if s.has_failed() != (s.is_error() or s.is_failure()):
            res.fail("C03.classification.has_failed", "Status.%s has_failed() inconsistent" % s.name)


# ---------------------------------------------------------------------------
# (c) synthetic containers built from the real model classes
# ---------------------------------------------------------------------------
_TEMPLATES = {}


def _template(kind, n):
    """Parse (once per process) a feature with one container of `kind` holding n children."""
    from behave.parser import parse_feature
    key = (kind, n)
    text = _TEMPLATES.get(key)
    if text is None:
        lines = [u"Feature: F"]
        if kind == "scenario":
            lines.append(u"  Scenario: S")
            for i in range(n):
                lines.append(u"    Given step c%d passes" % i)
        elif kind == "outline":
            lines += [u"  Scenario Outline: O", u"    Given step <x> passes", u"    Examples:", u"      | x |"]
            for i in range(n):
                lines.append(u"      | v%d |" % i)
        elif kind == "feature":
            for i in range(n):
                lines += [u"  Scenario: S%d" % i, u"    Given step c%d passes" % i]
        elif kind == "rule":
            lines.append(u"  Rule: R")
            for i in range(n):
                lines += [u"    Scenario: S%d" % i, u"      Given step c%d passes" % i]
        text = u"\n".join(lines) + u"\n"
        _TEMPLATES[key] = text
    return parse_feature(text, filename="synthetic.feature")


def check_synthetic(res, case):
    from behave.model_core import Status
    kind = case["elem"]
    children = case["children"]
    feature = _template(kind, len(children))
    if kind == "scenario":
        elem = feature.scenarios[0]
        for step, st_name in zip(elem.steps, children):
            step.status = Status.from_name(st_name)
    elif kind == "outline":
        elem = feature.scenarios[0]
        for row, st_name in zip(elem.scenarios, children):
            row.set_status(st_name)
    elif kind == "feature":
        elem = feature
        for sc, st_name in zip(feature.scenarios, children):
            sc.set_status(st_name)
    else:
        elem = feature.rules[0]
        for sc, st_name in zip(elem.scenarios, children):
            sc.set_status(st_name)
    elem.clear_status()
    actual = elem.status.name
    check_element(res, kind, "synthetic", actual, children)
    res.label("synthetic:" + kind)


def synthetic_enumeration():
    for kind, alphabet in (("scenario", STEP_STATUSES), ("outline", CONTAINER_CHILD_STATUSES),
                           ("feature", CONTAINER_CHILD_STATUSES), ("rule", CONTAINER_CHILD_STATUSES)):
        for n in range(1, 5):
            for tup in itertools.product(alphabet, repeat=n):
                yield {"kind": "synthetic", "elem": kind, "children": list(tup)}


# ---------------------------------------------------------------------------
# (d) repeated runs
# ---------------------------------------------------------------------------
def _resolve_acts(program, run_index):
    prog = copy.deepcopy(program)
    for f in prog["features"]:
        for steps in runcheck_step_lists(f):
            for s in steps:
                if s.get("o") == "act":
                    acts = s.pop("acts")
                    s["o"] = acts[run_index % len(acts)]
    return prog


def runcheck_step_lists(feat):
    from ..harness import _all_step_lists
    return _all_step_lists(feat)


def _snap(features):
    """Status snapshot (step texts dropped: call-time outcomes use a different step text)."""
    from ..harness import snapshot

    def strip(node):
        if isinstance(node, dict):
            out = dict(node)
            if "steps" in out:
                out["steps"] = [status for (_name, status) in out["steps"]]
            if "items" in out:
                out["items"] = [strip(x) for x in out["items"]]
            return out
        return node
    return [strip(f) for f in snapshot(features)]


def _diff(a, b, path="model"):
    if type(a) != type(b):
        return "%s: %r != %r" % (path, a, b)
    if isinstance(a, dict):
        for k in a:
            d = _diff(a[k], b.get(k), "%s.%s" % (path, a.get("name", k) if k == "items" else k))
            if d:
                return d
        return None
    if isinstance(a, (list, tuple)):
        if len(a) != len(b):
            return "%s: length %d != %d" % (path, len(a), len(b))
        for i, (x, y) in enumerate(zip(a, b)):
            d = _diff(x, y, "%s[%d]" % (path, i))
            if d:
                return d
        return None
    return None if a == b else "%s: %r != %r" % (path, a, b)


def check_rerun(res, case):
    from behave.model import reset_model
    base = case["program"]
    runs = case["runs"]
    features = None
    res.evals = 2 * runs
    for r in range(runs):
        prog = copy.deepcopy(base)
        prog["run_index"] = r
        prog = runcheck.resolve_faults(prog)
        ref = refmodel.simulate(prog)
        if features is not None and case.get("reset"):
            reset_model(features)
        run = run_program(prog, features=features)
        features = run.features
        if run.escaped is not None:
            res.fail("C03.escape", "exception escaped run() #%d: %r" % (r, run.escaped))
            return
        before = len(res.violations)
        check_model(res, features, ref)
        fresh = run_program(_resolve_acts(prog, r))
        d = _diff(_snap(fresh.features), _snap(features))
        if d:
            res.fail("C03.rerun.depends-only-on-latest-run",
                     "after run #%d the re-used model differs from a fresh model (fresh != reused): %s" % (r, d))
        if len(res.violations) > before:
            return
    res.label("rerun", "rerun:reset" if case.get("reset") else "rerun:no-reset")
    res.nontrivial = True


def _scenario_fails(outcomes, wip):
    for o in outcomes:
        if o == "pass" or (o == "pending" and wip):
            continue
        if o == "skip":
            return False
        return True
    return False


def final_attempt_program(base, max_attempts):
    """The program in which every scenario has the outcomes of its final auto-retry attempt."""
    from ..program import all_steps_of, scenario_instances, step_outcome
    expected = copy.deepcopy(base)
    # step-hook faults of single attempts (never the last one): the attempt fails if the step is reached
    once = dict(((i, int(a)), n) for n, i, _e, a in expected.pop("hook_faults_attempts", None) or [])
    named = set((n, i) for n, i, _e in base.get("hook_faults_named") or [])
    for f in expected["features"]:
        for inst in scenario_instances(f):
            steps = all_steps_of(f, inst)
            wip = "wip" in refmodel.effective_tags(f, inst)
            # a scenario hook that raises in every attempt: every attempt fails
            always = ("before_scenario", inst["name"]) in named or ("after_scenario", inst["name"]) in named
            final = 0
            for a in range(max_attempts):
                final = a
                if always:
                    continue
                outs = []
                for s in steps:
                    if s["o"] == "act":
                        outs.append(s["acts"][a % len(s["acts"])])
                    else:
                        outs.append(step_outcome(s, inst["rowdict"]))
                hook_hit = False
                for j, s in enumerate(steps):
                    if (s.get("uid"), a) in once and all(o == "pass" or (o == "pending" and wip) for o in outs[:j]):
                        hook_hit = True
                if not hook_hit and not _scenario_fails(outs, wip):
                    break
            for s in inst["item"]["steps"]:
                if s["o"] == "act":
                    s["o"] = s["acts"][final % len(s["acts"])]
                    s.pop("acts")
    return expected


def autoretry_run(case):
    """Run case["program"] with behave.contrib.scenario_autoretry applied to every scenario (outlines as a
    whole or row by row) -> (resolved base program, run)."""
    from behave.contrib.scenario_autoretry import patch_scenario_with_autoretry
    base = runcheck.resolve_faults(copy.deepcopy(case["program"]))
    max_attempts = case["attempts"]
    attempts = {}
    plan_holder = {}

    def observer(kind, name, context, arg):
        if kind == "hook" and name == "before_scenario":
            attempts[arg.name] = attempts.get(arg.name, 0) + 1
            plan_holder["plan"].run_index = attempts[arg.name] - 1

    def setup(runner, plan):
        from behave.model import ScenarioOutline
        plan_holder["plan"] = plan
        whole = bool(case.get("whole_outlines"))
        for f in runner.features:
            for s in f.walk_scenarios(with_outlines=True):
                if isinstance(s, ScenarioOutline):
                    if whole:
                        patch_scenario_with_autoretry(s, max_attempts=max_attempts)
                elif not (whole and getattr(s, "_row", None) is not None):
                    patch_scenario_with_autoretry(s, max_attempts=max_attempts)
    return base, run_program(base, observers=[observer], setup=setup)


def check_autoretry(res, case):
    """behave.contrib.scenario_autoretry: the final statuses are those of the last attempt."""
    max_attempts = case["attempts"]
    base, run = autoretry_run(case)
    res.evals = 2
    if run.escaped is not None:
        res.fail("C03.escape", "exception escaped run(): %r" % (run.escaped,))
        return
    expected = final_attempt_program(base, max_attempts)
    fresh = run_program(expected)
    d = _diff(_snap(fresh.features), _snap(run.features))
    if d:
        res.fail("C03.autoretry.depends-only-on-latest-attempt",
                 "statuses after auto-retry differ from a fresh run of the final attempts: %s" % d)
    check_model(res, run.features, None)
    res.label("autoretry")
    if base.get("hook_faults_named"):
        res.label("autoretry:hook-raises-in-every-attempt")
    if base.get("hook_faults_attempts"):
        res.label("autoretry:step-hook-raises-in-one-attempt")
    if case.get("whole_outlines") and any(it["k"] == "o" and sum(len(e["rows"]) for e in it["ex"]) >= 2
                                          for f in base["features"] for it, _r in iter_items(f)):
        res.label("autoretry:outline-as-a-whole")
    res.nontrivial = True


# ---------------------------------------------------------------------------
ACT_OUTCOMES = ["pass", "pass", "fail", "raise", "pending"]


@st.composite
def aborted_program(draw):
    prog = draw(gen.program_st(faults=False, max_features=2, outcomes=["pass", "pass", "pass", "abort", "fail"],
                               cfg=gen.cfg_st(flags=("stop",), p_tags=0.85)))
    if draw(st.integers(0, 2)) == 0:
        prog["hook_faults"] = [[draw(st.integers(0, 10000)), "abort"]]
    return {"kind": "run", "program": prog, "pool": "aborted"}


@st.composite
def act_program(draw, allow_bg_acts=True, with_skip=False, with_interrupt=True, flags=("stop",)):
    """Program whose step outcomes (some of them) are looked up at call time."""
    prog = draw(gen.program_st(faults=False, max_features=2,
                               cfg=gen.cfg_st(flags=flags, p_tags=0.3)))
    pool = list(ACT_OUTCOMES)
    if with_skip:
        pool.append("skip")
    if with_interrupt:
        pool.append("interrupt")
    for f in prog["features"]:
        lists = []
        for item in f["items"]:
            subs = item["items"] if item["k"] == "r" else [item]
            for sub in subs:
                if sub["k"] == "s":
                    lists.append(sub["steps"])
        if allow_bg_acts and f.get("bg"):
            lists.append(f["bg"])
        for steps in lists:
            for s in steps:
                if not s["o"].startswith("<") and draw(st.integers(0, 1)) == 0:
                    s["o"] = "act"
                    s.pop("a", None)
                    s["acts"] = [draw(st.sampled_from(pool)) for _ in range(3)]
                elif s["o"] == "skip" and not with_skip:
                    s["o"] = "pass"
    return prog


@st.composite
def autoretry_case(draw):
    prog = strip_skip(draw(act_program(allow_bg_acts=False, with_interrupt=False)))
    case = {"kind": "autoretry", "program": prog, "attempts": draw(st.integers(2, 3)), "whole_outlines": draw(st.booleans())}
    if draw(st.integers(0, 3)) == 0:
        # a scenario hook that raises for one scenario in EVERY attempt
        from ..program import normalize
        normalize(prog)
        names = [i["name"] for _f, i in runcheck.instances(prog)]
        if names:
            prog["hook_faults_named"] = [[draw(st.sampled_from(["after_scenario", "after_scenario", "before_scenario"])),
                                          draw(st.sampled_from(names)), "Exception"]]
    elif draw(st.integers(0, 1)) == 0:
        # a STEP hook that raises in one attempt only (never in the last one): an attempt in which the step's hook
        # raised, one in which an earlier step failed (the step is skipped), one in which everything passes -- ...
        from ..program import normalize
        normalize(prog)
        plain = [it for f in prog["features"] for it, _r in iter_items(f) if it["k"] == "s" and it["steps"]]
        if plain:
            sc = plain[draw(st.integers(0, len(plain) - 1))]
            j = draw(st.integers(0, len(sc["steps"]) - 1))
            if case["attempts"] == 3 and j >= 1 and draw(st.booleans()):
                for s in sc["steps"]:
                    s["o"] = "pass"
                    s.pop("acts", None)
                    s.pop("a", None)
                sc["steps"][j - 1]["o"] = "act"
                sc["steps"][j - 1]["acts"] = draw(st.sampled_from([["pass", "fail", "pass"], ["pass", "raise", "pass"],
                                                                   ["pass", "fail", "fail"]]))
                attempt = 0
            else:
                attempt = draw(st.integers(0, case["attempts"] - 2))
            prog["hook_faults_attempts"] = [[draw(st.sampled_from(["before_step", "before_step", "after_step"])),
                                             sc["steps"][j]["uid"], draw(st.sampled_from(["Exception", "AssertionError"])), attempt]]
    return case


def strip_skip(prog, also=("interrupt",)):
    """scenario.skip() in a step excludes the scenario from later runs by design."""
    for f in prog["features"]:
        for steps in runcheck_step_lists(f):
            for s in steps:
                if s["o"] == "skip" or s["o"] in also:
                    s["o"] = "pass"
        for item in f["items"]:
            subs = item["items"] if item["k"] == "r" else [item]
            for sub in subs:
                if sub["k"] == "o":
                    for ex in sub["ex"]:
                        ex["rows"] = [[("passes" if c in ("skips", "interrupts") else c) for c in row]
                                      for row in ex["rows"]]
    return prog


@st.composite
def late_skip_program(draw):
    prog = draw(gen.program_st(faults=False, max_features=2, max_items=2, min_rules=2, max_rules=3, with_cleanup=True,
                               outcomes=["pass", "pass", "fail", "raise", "undefined", "skip"],
                               cfg=gen.cfg_st(flags=(), p_tags=0.3)))
    prog["hook_faults"] = [[draw(st.integers(0, 10000)), "skip_feature"]]
    if draw(st.booleans()):
        # cleanups registered by hooks (scenario, rule, feature level), some of them raising: an element that ended
        # with a cleanup error keeps that status when the rest of its feature is given up afterwards
        prog["cleanups"] = [{"at": draw(st.integers(0, 10000)), "raises": draw(st.booleans())}
                            for _ in range(draw(st.integers(1, 3)))]
    return {"kind": "run", "program": prog}


@st.composite
def interrupted_program(draw):
    prog = draw(gen.program_st(faults=False, max_features=2, cfg=gen.cfg_st(flags=("stop",), p_tags=0.3)))
    prog["hook_faults"] = [[draw(st.integers(0, 10000)), "KeyboardInterrupt"]]
    return {"kind": "interrupted", "program": prog}


def explore(rec):
    quick = rec.tier == "quick"
    rec.enum("status-enum", [{"kind": "enum-status"}])
    rec.enum("synthetic-child-tuples<=4", synthetic_enumeration())
    rec.hyp("runs", gen.program_st().map(lambda p: {"kind": "run", "program": p}), 6000 if quick else 150000)
    # runs that are cut short without any failure (context.abort() in a passing step or in a hook) over programs with
    # deselected scenarios: what is never reached stays untested, whatever the selection says about it
    rec.hyp("aborted-runs", aborted_program(), 1500 if quick else 40000)
    # a hook gives up the rest of a partly executed feature (context.feature.skip() in after_scenario) that consists of
    # several rules: what has run keeps its status, on every level
    rec.hyp("late-feature-skip", late_skip_program(), 800 if quick else 20000)
    rec.hyp("interrupted-in-hook", interrupted_program(), 1000 if quick else 25000)
    rec.hyp("rerun-with-reset", act_program(with_skip=True).map(
        lambda p: {"kind": "rerun", "program": p, "runs": 3, "reset": True}), 700 if quick else 20000)
    # without reset every scenario must be visited again by the later run: no --stop, no interrupt
    rec.hyp("rerun-no-reset", act_program(with_skip=False, with_interrupt=False, flags=()).map(
        lambda p: {"kind": "rerun", "program": strip_skip(p), "runs": 2, "reset": False}), 700 if quick else 20000)
    rec.hyp("autoretry", autoretry_case(), 1000 if quick else 25000)


def required_labels(tier):
    return ["status-enum", "synthetic:scenario", "synthetic:outline", "synthetic:feature", "synthetic:rule",
            "run", "cut-short", "hook-fault", "raising-cleanup", "dry-run", "rerun:reset", "rerun:no-reset",
            "autoretry", "autoretry:outline-as-a-whole", "autoretry:hook-raises-in-every-attempt",
            "autoretry:step-hook-raises-in-one-attempt",
            "aborted-without-failure:deselected-never-reached", "interrupt-in-hook:before_scenario",
            "interrupt-in-hook:after_feature", "interrupt-in-hook:after_step"]


def _f2_scenario_skipped(case, detail, info):
    """F2: a scenario that contains skipped steps next to other steps reports 'skipped'
    (Scenario.compute_status returns the first non-passed step status; skipping the rest of
    a scenario from inside a step is documented behaviour)."""
    return (info.get("kind") == "scenario" and info.get("actual") == "skipped"
            and not info.get("own_fault") and "skipped" in info.get("children", []))


def _f25_not_executed_child_hides_error(case, detail, info):
    """F25: a not-executed (untested-class) child standing BEFORE the first error/failed child
    makes scenario / rule / feature report 'untested' (or 'failed' when a passed child precedes it;
    documented for dry-run by
    features/runner.dry_run.feature: scenarios stay untested when an undefined step is found)."""
    if info.get("actual") not in ("untested", "failed") or info.get("own_fault"):
        return False
    if info.get("kind") not in ("scenario", "feature", "rule"):
        return False
    children = info.get("children", [])
    for c in children:
        if c in UNTESTED_LIKE:
            return True
        if c in ERROR_CLASS or c == "failed":
            return False
    return False


KNOWN_PREDICATES = {"scenario_skipped_with_other_steps": _f2_scenario_skipped,
                    "not_executed_child_before_error": _f25_not_executed_child_hides_error}


RULE = RULE + " " + ('Auto-retry patches outlines as a whole or row by row; hooks may read element statuses while the run is in progress (reading changes nothing).')
RULE = RULE + " " + ('A pool of runs aborted without any failure (context.abort() in a passing step or hook) over mostly tag-selected programs: never-reached deselected scenarios keep the roll-up of their untouched steps.')
