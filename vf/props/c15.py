# -*- coding: utf-8 -*-
"""C15 -- Formatter event protocol well formed; JSON / plain / progress reports mirror the model."""
from __future__ import annotations

import io
import json
import os
import re
import tempfile

from hypothesis import strategies as st

from .. import gen, runcheck
from ..core import CaseResult
from ..program import all_steps_of, scenario_instances, step_text

ID = "C15"
LEVEL = "exploration"
RULE = ("Generated runs over trees with backgrounds at feature and rule level, outlines, deselected / failing / erroring "
        "scenarios, steps with tables and doc-strings, unicode names; a drawn subset and order of the built-in formatters "
        "{plain, pretty, json, json.pretty, progress, progress2, progress3, null, rerun} between TWO recording formatters "
        "(first and last); show_skipped / show_timings / dry-run drawn. Oracle: both recorders see the same event stream; it "
        "is accepted by the event grammar (k-th result refers to the k-th announced step) and equals the stream predicted by "
        "the reference model; the JSON report parses and its features / shown scenarios / steps / tables / doc-strings / "
        "statuses equal the model after the run, each on its own element; reading it back with JsonParser (and "
        "json_parser.parse on a file) gives the same structure and statuses; plain shows each processed step once, in order, "
        "with its final status; progress2/3 print one status character per processed step. Non-trivial = >= 2 formatters and "
        "one of {rule background, outline, failure, deselection, dry-run with an undefined step}.")
ASSUMPTIONS = [
    "containers entered only through their own tags while nothing in them is selected: exact stream not compared "
    "when show_skipped is off",
    "steps that were not processed (skipped after a failure, never reached) carry no status in the JSON report; "
    "only processed steps, scenarios and features are compared after reading the report back",
    "timestamps and durations are not compared",
]
SIMPLIFY = {"o": lambda v: "pass" if not v.startswith("<") else None, "tagx": "nullable", "bg": "nullable",
            "text": "nullable", "table": "nullable"}
WATCHDOG_S = {"quick": 900, "thorough": 4 * 3600}

FORMATTERS = ["plain", "pretty", "json", "json.pretty", "progress", "progress2", "progress3", "null", "rerun"]
DOT = {"passed": ".", "failed": "F", "error": "E", "hook_error": "H", "skipped": "S", "untested": "_",
       "untested_pending": "p", "untested_undefined": "u", "undefined": "U", "pending": "P", "pending_warn": "p"}


def make_recorder_class():
    from behave.formatter.base import Formatter

    class Recorder(Formatter):
        name = "vf.recorder"

        def __init__(self, stream_opener, config):
            super(Recorder, self).__init__(stream_opener, config)
            self.events = []

        def uri(self, uri):
            self.events.append(["uri", uri])

        def feature(self, feature):
            self.events.append(["feature", feature.name])

        def rule(self, rule):
            self.events.append(["rule", rule.name])

        def rule_finished(self):
            self.events.append(["rule_finished"])

        def background(self, background):
            self.events.append(["background"])

        def scenario(self, scenario):
            self.events.append(["scenario", scenario.name])

        def step(self, step):
            self.events.append(["step", step.name])

        def match(self, match):
            self.events.append(["match", bool(match.location)])

        def result(self, step):
            self.events.append(["result", step.name, step.status.name])

        def eof(self):
            self.events.append(["eof"])

        def close(self):
            self.events.append(["close"])
    return Recorder


def grammar(events):
    """Independent recogniser of the formatter event grammar; returns error text or None."""
    i = 0
    n = len(events)

    def kind(k):
        return events[k][0] if k < n else None

    def scen(k):
        # scenario step{n} (match result){p}
        k += 1
        steps = []
        while kind(k) == "step":
            steps.append(events[k][1])
            k += 1
        p = 0
        while kind(k) == "match":
            if kind(k + 1) != "result":
                return k, "match #%d is not followed by a result" % k
            if p >= len(steps):
                return k, "more results than announced steps at #%d" % k
            if events[k + 1][1] != steps[p]:
                return k, "result #%d refers to step %r but the next announced step is %r" % (
                    k + 1, events[k + 1][1], steps[p])
            p += 1
            k += 2
        if kind(k) == "result":
            return k, "result #%d without a preceding match" % k
        return k, None

    while i < n and kind(i) == "uri":
        i += 1
        if kind(i) != "feature":
            continue
        i += 1
        if kind(i) == "background":
            i += 1
        in_rule = False
        while True:
            k = kind(i)
            if k == "scenario":
                i, err = scen(i)
                if err:
                    return err
            elif k == "rule":
                if in_rule:
                    return "rule #%d starts before the previous rule finished" % i
                in_rule = True
                i += 1
                if kind(i) == "background":
                    i += 1
            elif k == "rule_finished":
                if not in_rule:
                    return "rule_finished #%d without a rule" % i
                in_rule = False
                i += 1
            elif k == "eof":
                if in_rule:
                    return "eof #%d inside a rule" % i
                i += 1
                break
            else:
                return "unexpected event %r at #%d inside a feature" % (events[i] if i < n else None, i)
    if kind(i) != "close":
        return "expected close at #%d, got %r" % (i, events[i] if i < n else None)
    if i != n - 1:
        return "events after close: %r" % (events[i + 1:i + 3],)
    return None


def expected_stream(prog, ref, show_skipped, filenames):
    """Event stream predicted by the reference model; None if it contains an open point."""
    events = []
    for fi, feat in enumerate(prog["features"]):
        started = feat["name"] in ref_started_features(prog, ref)
        if not started:
            continue        # run cut short before this feature: no event at all
        events.append(["uri", filenames[fi]])
        entered = ref.entered.get(("feature", feat["name"]), False)
        if ("feature", feat["name"]) in ref.open_containers and not show_skipped:
            return None
        if not (entered or show_skipped):
            continue
        events.append(["feature", feat["name"]])
        if feat.get("bg") is not None:
            events.append(["background"])
        insts = list(scenario_instances(feat))

        def emit_scen(inst):
            name = inst["name"]
            if name in ref.untouched:
                return
            selected = name in ref.selected
            if not (selected or show_skipped):
                return
            events.append(["scenario", name])
            steps = all_steps_of(feat, inst) if name not in ref.no_background else list(inst["item"]["steps"])
            for s in steps:
                events.append(["step", step_text(s, inst["rowdict"])])
            statuses = ref.steps.get(name) or []
            proc = ref.processed.get(name) or []
            for s, status, p in zip(steps, statuses, proc):
                if p:
                    events.append(["match", status not in ("undefined",)])
                    events.append(["result", step_text(s, inst["rowdict"]), status])
        for item in feat["items"]:
            if item["k"] == "r":
                rname = item["name"]
                rinsts = [i for i in insts if i["rule"] is item]
                if ("rule", rname) not in ref.entered:
                    continue        # never reached
                if ("rule", rname) in ref.open_containers and not show_skipped:
                    return None
                if ref.entered[("rule", rname)] or show_skipped:
                    events.append(["rule", rname])
                    if item.get("bg") is not None or feat.get("bg") is not None:
                        events.append(["background"])
                for inst in rinsts:
                    emit_scen(inst)
                if ref.entered[("rule", rname)] or show_skipped:
                    events.append(["rule_finished"])
            else:
                for inst in insts:
                    if inst["item"] is item:
                        emit_scen(inst)
        events.append(["eof"])
    events.append(["close"])
    return events


def ref_started_features(prog, ref):
    return set(name for (kind, name) in ref.entered if kind == "feature")


def check_library_route(case):
    """behave driven as a library -- Configuration(args) + Runner(config).run() -- with MORE formatters than outfiles
    (`-f json -o report.json -f plain`): behave builds the formatter objects itself; the plain report on stdout and
    the JSON report in the file name the same features and scenarios."""
    import json as _json
    import os
    from .. import disk
    res = CaseResult()
    prog = runcheck.resolve_faults(case["program"])
    proj = disk.Project(prog)
    try:
        argv = disk.cli_args(prog.get("cfg") or {}) + ["-f", "json", "-o", "report.json", "-f", "plain", "features"]
        run = disk.run_inproc(proj, argv, prog)
        if run.escaped is not None:
            res.fail("C15.library.escape", "Runner.run() raised %r" % (run.escaped,))
            return res
        path = os.path.join(proj.root, "report.json")
        try:
            with open(path, encoding="utf-8") as f:
                data = _json.load(f)
        except (IOError, OSError, ValueError) as e:
            res.fail("C15.library.json", "report.json: %r" % (e,))
            return res
    finally:
        proj.close()
    in_json = [f.get("name") for f in data]
    scen_json = [e.get("name") for f in data for e in f.get("elements", []) if e.get("type") != "background"]
    lines = [ln.strip() for ln in run.stdout.splitlines()]
    in_plain = [ln.split(u": ", 1)[1] for ln in lines if ln.startswith(u"Feature: ")]
    scen_plain = [ln.split(u": ", 1)[1] if u": " in ln else u"" for ln in lines
                  if ln.startswith((u"Scenario: ", u"Scenario Outline: ", u"Scenario:", u"Scenario Outline:"))]
    if in_json != in_plain:
        res.fail("C15.library.formatters-disagree", "json reports the features %r, plain (stdout) %r" % (in_json, in_plain))
    elif len(scen_json) != len(scen_plain):
        res.fail("C15.library.formatters-disagree", "json reports %d scenarios, plain (stdout) %d"
                 % (len(scen_json), len(scen_plain)))
    res.label("library-route:more-formatters-than-outfiles")
    res.nontrivial = len(scen_json) >= 2
    return res


def check(case):
    if case.get("kind") == "library":
        return check_library_route(case)
    from behave.formatter.base import StreamOpener
    from behave.formatter._registry import make_formatters
    res = CaseResult()
    names = list(case.get("formatters") or [])
    streams = []
    recorders = []

    display = case.get("display") or {}

    def formatters(config):
        config.format = list(names)
        # display options change what the text formatters print, never which events arrive
        if "show_source" in display:
            config.show_source = bool(display["show_source"])
        if "show_timings" in display:
            config.show_timings = bool(display["show_timings"])
        if "show_multiline" in display:
            config.show_multiline = bool(display["show_multiline"])
        if display.get("color"):
            config.color = display["color"]
        openers = []
        for _ in names:
            stream = io.StringIO()
            streams.append(stream)
            openers.append(StreamOpener(stream=stream))
        built = make_formatters(config, openers)
        rec_cls = make_recorder_class()
        r1 = rec_cls(StreamOpener(stream=io.StringIO()), config)
        r2 = rec_cls(StreamOpener(stream=io.StringIO()), config)
        recorders.extend([r1, r2])
        return [r1] + built + [r2]

    program = case["program"]
    cfg = program.setdefault("cfg", {})
    prog, ref, run = runcheck.run_and_ref(program, formatters=formatters)
    if run.escaped is not None:
        res.fail("C15.escape", "exception escaped run() with formatters %s: %r" % (names, run.escaped))
        return res
    ev1, ev2 = recorders[0].events, recorders[1].events
    # -- (a) all formatters see the same, well-formed stream
    if ev1 != ev2:
        k = 0
        while k < min(len(ev1), len(ev2)) and ev1[k] == ev2[k]:
            k += 1
        res.fail("C15.stream.formatters-disagree", "first and last formatter differ at event #%d: %r vs %r"
                 % (k, ev1[k:k + 2], ev2[k:k + 2]))
    err = grammar(ev1)
    if err:
        res.fail("C15.stream.grammar", err)
    show_skipped = cfg.get("show_skipped") is not False
    filenames = [f.filename for f in run.features]
    want = expected_stream(prog, ref, show_skipped, filenames)
    if want is not None and want != ev1:
        k = 0
        while k < min(len(want), len(ev1)) and want[k] == ev1[k]:
            k += 1
        res.fail("C15.stream.predicted", "event #%d: got %r, expected %r" % (k, ev1[k:k + 3], want[k:k + 3]))
    # -- model facts about shown scenarios
    shown = shown_scenarios(run.features, ev1)
    for name, stream in zip(names, streams):
        text = stream.getvalue()
        if name in ("json", "json.pretty"):
            check_json(res, name, text, run.features, shown, case)
        elif name == "plain":
            check_plain(res, text, ev1)
        elif name in ("progress2", "progress3"):
            check_progress(res, name, text, ev1)
    # -- classification
    insts = runcheck.instances(prog)
    interesting = []
    if any(it["k"] == "r" and (it.get("bg") is not None) for f in prog["features"] for it in f["items"]):
        interesting.append("rule-background")
    if any(i["outline"] is not None for _f, i in insts):
        interesting.append("outline")
    if ref.failed:
        interesting.append("failure")
    if ref.not_selected:
        interesting.append("deselection")
    if cfg.get("dry_run"):
        interesting.append("dry-run")
        if any("undefined" in (ref.steps.get(n) or []) for n in ref.selected):
            interesting.append("dry-run+undefined")
    if run.notes:
        interesting.append("nested-steps")
        if cfg.get("verbose"):
            interesting.append("nested-steps+verbose")
    if display:
        interesting.append("display-options")
        if display.get("color") == "always" and display.get("show_source") is False and "pretty" in names:
            interesting.append("display:pretty-coloured-without-source")
    for lab in interesting:
        res.label(lab)
    if ref.skipped_by_hook:
        res.label("skipped-by-hook:" + sorted(ref.skipped_by_hook)[0][0])
    if ref.no_background:
        res.label("background-switched-off-by-hook")
    for n in names:
        res.label("fmt:" + n)
    res.nontrivial = len(names) >= 2 and bool(set(interesting) - {"dry-run"})
    return res


def shown_scenarios(features, events):
    """behave Scenario objects in the order of the 'scenario' events."""
    by_name = {}
    for f in features:
        for s in f.walk_scenarios():
            by_name[s.name] = s
    return [by_name[e[1]] for e in events if e[0] == "scenario" and e[1] in by_name]


def processed_results(events):
    """[(step name, status)] in the order of the result events"""
    return [(e[1], e[2]) for e in events if e[0] == "result"]


# ---------------------------------------------------------------------------
def check_json(res, fmt, text, features, shown, case):
    try:
        data = json.loads(text)
    except ValueError as e:
        res.fail("C15.json.invalid", "%s output is not valid JSON: %s; %r" % (fmt, e, text[:200]))
        return
    if not isinstance(data, list):
        res.fail("C15.json.invalid", "%s top level is %s" % (fmt, type(data).__name__))
        return
    shown_features = []
    seen = set()
    for s in shown:
        if id(s.feature) not in seen:
            seen.add(id(s.feature))
    # features that got a feature event: derive from recorder is done by caller through `shown`;
    # a feature without shown scenarios may still be reported: match by name
    by_name = dict((f.name, f) for f in features)
    elements = []
    backgrounds = {}        # feature name -> [step names of each background element, in order]
    for jf in data:
        f = by_name.get(jf.get("name"))
        if f is None:
            res.fail("C15.json.feature", "%s reports unknown feature %r" % (fmt, jf.get("name")))
            return
        if jf.get("status") != f.status.name:
            res.fail("C15.json.feature-status", "%s: feature %r has status %r in the report, %s in the model"
                     % (fmt, f.name, jf.get("status"), f.status.name))
        if list(jf.get("tags", [])) != [str(t) for t in f.tags]:
            res.fail("C15.json.feature", "%s: feature %r tags %r vs %r" % (fmt, f.name, jf.get("tags"), list(f.tags)))
        for el in jf.get("elements", []):
            if el.get("type") == "scenario":
                elements.append(el)
            elif el.get("type") == "background":
                if "status" in el and el["status"] is not None:
                    res.fail("C15.json.status-on-wrong-element",
                             "%s: background element of feature %r carries status %r" % (fmt, f.name, el["status"]))
                backgrounds.setdefault(f.name, []).append([j.get("name") for j in el.get("steps", [])])
            else:
                res.fail("C15.json.element", "%s: unknown element type %r" % (fmt, el.get("type")))
    # -- a background element lists the steps WRITTEN in that Background section (the feature's own, then one
    #    per rule that has a Background of its own or inherits the feature's), not the inherited ones
    from ..program import step_text
    import copy as _copy
    from ..program import normalize as _normalize
    prog = _normalize(_copy.deepcopy(case.get("program") or {"features": []}))
    fnames = [f.get("name") for f in prog.get("features", [])]
    if len(set(fnames)) == len(fnames):
        for feat in prog.get("features", []):
            if feat.get("name") not in backgrounds:
                continue
            written = []
            if feat.get("bg") is not None:
                written.append([step_text(st_) for st_ in feat["bg"]])
            for it in feat["items"]:
                if it["k"] == "r" and (it.get("bg") is not None or feat.get("bg") is not None):
                    written.append([step_text(st_) for st_ in (it.get("bg") or [])])
            got = backgrounds[feat["name"]]
            if len(got) == len(written) and got != written:
                res.fail("C15.json.background", "%s: feature %r: background elements list the steps %r, the Background "
                         "sections contain %r" % (fmt, feat["name"], got, written))
            elif len(got) == len(written) and any(written):
                res.label("json:background-steps")
    if [e.get("name") for e in elements] != [s.name for s in shown]:
        res.fail("C15.json.scenarios", "%s scenarios %r, shown scenarios %r"
                 % (fmt, [e.get("name") for e in elements][:6], [s.name for s in shown][:6]))
        return
    # a scenario WITHOUT any step that a later hook excludes together with the rest of its feature (feature.skip()):
    # its status is not determined by anything in it (out of scope, as in C03)
    late_skip = any(k == "skip_feature" for _i, k in case["program"].get("hook_faults") or [])
    for el, s in zip(elements, shown):
        if late_skip and not list(s.all_steps):
            continue
        if el.get("status") != s.status.name:
            res.fail("C15.json.scenario-status", "%s: scenario %r has status %r in the report, %s in the model"
                     % (fmt, s.name, el.get("status"), s.status.name))
        if list(el.get("tags", [])) != [str(t) for t in s.tags]:
            res.fail("C15.json.scenario", "%s: scenario %r tags differ" % (fmt, s.name))
        steps = list(s.all_steps)
        jsteps = el.get("steps", [])
        if [j.get("name") for j in jsteps] != [st_.name for st_ in steps]:
            res.fail("C15.json.steps", "%s: scenario %r steps %r vs model %r"
                     % (fmt, s.name, [j.get("name") for j in jsteps], [st_.name for st_ in steps]))
            continue
        for j, st_ in zip(jsteps, steps):
            if j.get("keyword") != st_.keyword or j.get("step_type") != st_.step_type:
                res.fail("C15.json.step", "%s: step %r keyword/type %r/%r vs %r/%r"
                         % (fmt, st_.name, j.get("keyword"), j.get("step_type"), st_.keyword, st_.step_type))
            jt = j.get("text")
            if isinstance(jt, list):
                jt = u"\n".join(jt)
            mt = None if not st_.text else str(st_.text)
            if (jt or None) != (mt or None):
                res.fail("C15.json.docstring", "%s: step %r text %r vs model %r" % (fmt, st_.name, jt, mt))
            jtab = j.get("table")
            if st_.table is not None:       # (not truthiness: a heading-only table is a table)
                want = {"headings": list(st_.table.headings), "rows": [list(r.cells) for r in st_.table.rows]}
                if jtab != want:
                    res.fail("C15.json.table", "%s: step %r table %r vs model %r" % (fmt, st_.name, jtab, want))
            elif jtab:
                res.fail("C15.json.table", "%s: step %r has a table only in the report" % (fmt, st_.name))
            result = j.get("result")
            if result is not None and result.get("status") != st_.status.name:
                res.fail("C15.json.step-status", "%s: scenario %r step %r has status %r in the report, %s in the model"
                         % (fmt, s.name, st_.name, result.get("status"), st_.status.name))
            executed = st_.status.name not in ("untested", "skipped") or \
                (st_.status.name == "untested" and getattr(s, "was_dry_run", False))
            if result is None and st_.status.name in ("passed", "failed", "error", "pending", "pending_warn",
                                                       "hook_error"):
                res.fail("C15.json.step-result-missing", "%s: scenario %r step %r (%s) has no result in the report"
                         % (fmt, s.name, st_.name, st_.status.name))
    # -- (c) read the report back
    check_readback(res, fmt, data, text, elements, shown, features, case)


def check_readback(res, fmt, data, text, elements, shown, features, case):
    from behave import json_parser
    from behave.model import Scenario
    try:
        back = json_parser.JsonParser().parse_features(data)
    except Exception as e:
        res.fail("C15.readback.raises", "%s: JsonParser raised %r" % (fmt, e))
        return
    via_file = case.get("readback_file")
    if via_file:
        fd, path = tempfile.mkstemp(suffix=".json", prefix="vf-c15-", dir=os.environ.get("VERIF_TMP") or None)
        try:
            with os.fdopen(fd, "w", encoding="utf-8") as f:
                f.write(text)
            try:
                back2 = json_parser.parse(path)
            except Exception as e:
                res.fail("C15.readback.parse-file", "json_parser.parse(%s report file) raised %s: %s"
                         % (fmt, type(e).__name__, e))
                back2 = None
        finally:
            os.unlink(path)
        if back2 is not None and len(back2) != len(back):
            res.fail("C15.readback.parse-file", "json_parser.parse gives %d features, JsonParser %d"
                     % (len(back2), len(back)))
        res.label("readback:file")
    by_name = dict((f.name, f) for f in features)
    scen_back = []
    for fb in back:
        f = by_name.get(fb.name)
        if f is None:
            continue
        if fb.status.name != f.status.name:
            res.fail("C15.readback.feature-status", "%s read back: feature %r status %s, model %s"
                     % (fmt, f.name, fb.status.name, f.status.name))
        for s in fb.scenarios:
            scen_back.append(s)
    if [s.name for s in scen_back] != [s.name for s in shown]:
        res.fail("C15.readback.scenarios", "%s read back: scenarios %r vs %r"
                 % (fmt, [s.name for s in scen_back][:5], [s.name for s in shown][:5]))
        return
    late_skip = any(k == "skip_feature" for _i, k in case["program"].get("hook_faults") or [])
    for sb, s, el in zip(scen_back, shown, elements):
        has_result = [("result" in j and j["result"] is not None) for j in el.get("steps", [])]
        if sb.status.name != s.status.name and not (late_skip and not list(s.all_steps)):
            res.fail("C15.readback.scenario-status", "%s read back: scenario %r status %s, model %s"
                     % (fmt, s.name, sb.status.name, s.status.name))
        msteps = list(s.all_steps)
        if [x.name for x in sb.steps] != [x.name for x in msteps]:
            res.fail("C15.readback.steps", "%s read back: scenario %r steps differ" % (fmt, s.name))
            continue
        for k, (xb, xm) in enumerate(zip(sb.steps, msteps)):
            # steps without a result in the report carry no status there (not processed)
            if k < len(has_result) and has_result[k] and xb.status.name != xm.status.name:
                res.fail("C15.readback.step-status", "%s read back: step %r status %s, model %s"
                         % (fmt, xm.name, xb.status.name, xm.status.name))
            if (xb.text or None) != (str(xm.text) if xm.text else None):
                res.fail("C15.readback.docstring", "%s read back: step %r text %r vs %r" % (fmt, xm.name, xb.text, xm.text))
            if xm.table is not None and (xb.table is None or list(xb.table.headings) != list(xm.table.headings) or
                             [list(r.cells) for r in xb.table.rows] != [list(r.cells) for r in xm.table.rows]):
                res.fail("C15.readback.table", "%s read back: step %r table differs" % (fmt, xm.name))


STEP_LINE = re.compile(r"^\s+(Given|When|Then|And|But|\*) (.*) \.\.\. ([a-z_]+)( in \d+\.\d+s)?$")


def check_plain(res, text, events):
    want = processed_results(events)
    got = []
    for line in text.splitlines():
        m = STEP_LINE.match(line)
        if m:
            got.append((m.group(2), m.group(3)))
    if got != want:
        k = 0
        while k < min(len(got), len(want)) and got[k] == want[k]:
            k += 1
        res.fail("C15.plain.steps", "plain report shows %r at position %d, processed steps are %r"
                 % (got[k:k + 3], k, want[k:k + 3]))


def check_progress(res, fmt, text, events):
    want = "".join(DOT.get(status, "?") for _n, status in processed_results(events))
    # remove failure sections (between dashed separators) and non progress text
    lines = text.splitlines()
    out = []
    in_block = False
    for line in lines:
        if set(line.strip()) == {"-"} and len(line.strip()) >= 40:
            in_block = not in_block if fmt == "progress2" else in_block
            continue
        out.append(line)
    if fmt == "progress2":
        # "<filename>  <chars>" per feature; failure blocks follow the dots
        chars = []
        in_block = False
        for line in lines:
            if set(line.strip()) == {"-"} and len(line.strip()) >= 40:
                in_block = not in_block
                continue
            if in_block:
                continue
            m = re.match(r"^\S+\.feature  ([.FEHS_puUP]*)\s*$", line)
            if m:
                chars.append(m.group(1))
        got = "".join(chars)
    else:
        chars = []
        in_block = False
        for line in lines:
            if set(line.strip()) == {"-"} and len(line.strip()) >= 40:
                in_block = not in_block
                continue
            m = re.match(r"^\s+.*  ([.FEHS_puUP]*)$", line)
            if m and not line.startswith(("FAILURE", "ERROR")):
                chars.append(m.group(1))
        got = "".join(chars)
        if got != want:
            # progress3 layout is free text around names; compare only the multiset of characters
            import collections
            if collections.Counter(c for c in want) == collections.Counter(c for c in got):
                return
    if got != want:
        res.fail("C15.%s.characters" % fmt, "%s prints %r for processed steps with statuses %r" % (fmt, got, want))


# ---------------------------------------------------------------------------
UNAMES = [u"plain", u"Ünïcödé scenario", u"with \"quotes\"", u"日本語", u"a & b <c>", u"tab\tname"]


@st.composite
def case_st(draw):
    prog = draw(gen.program_st(faults=draw(st.integers(0, 4)) == 0, max_features=2, relog=True,
                               outcomes=["pass", "pass", "pass", "fail", "raise", "undefined", "pending", "skip", "convert", "takes"],
                               cfg=gen.cfg_st(flags=("stop", "dry_run"), p_tags=0.4)))
    # tables, doc-strings and unicode names
    for fi, f in enumerate(prog["features"]):
        if draw(st.integers(0, 2)) == 0:
            f["name"] = u"%s %d" % (draw(st.sampled_from(UNAMES)), fi)
        lists = []
        if f.get("bg"):
            lists.append(f["bg"])
        for it in f["items"]:
            subs = it["items"] if it["k"] == "r" else [it]
            if it["k"] == "r" and it.get("bg"):
                lists.append(it["bg"])
            for sub in subs:
                lists.append(sub["steps"])
        for steps in lists:
            for s in steps:
                v = draw(st.integers(0, 5))
                if v == 0:
                    s["text"] = draw(st.sampled_from([u"one line", u"two\nlines", u"ünï\n  indented", u""]))
                elif v == 1:
                    s["table"] = draw(st.sampled_from([[[u"h"]], [[u"a", u"b"], [u"1", u"ü"]], [[u"x|y"], [u""]]]))
    # steps that execute other steps (context.execute_steps): the sub-steps are no events of their own --
    # whatever the verbosity of the run
    nested = 0
    for f in prog["features"]:
        for it in f["items"]:
            for sub in (it["items"] if it["k"] == "r" else [it]):
                if sub["k"] != "s":
                    continue
                for s in sub["steps"]:
                    if s["o"] == "pass" and not s.get("a") and "text" not in s and "table" not in s and \
                            draw(st.integers(0, 5)) == 0:
                        nested += 1
                        s["o"] = "nest"
                        s["sub"] = [{"uid": "n%d_%d" % (nested, k), "o": draw(st.sampled_from(["pass", "pass", "fail"]))}
                                    for k in range(draw(st.integers(1, 2)))]
    if draw(st.integers(0, 3)) == 0:
        prog["cfg"]["verbose"] = True
    # run-time exclusion: a before_feature / before_rule / before_scenario hook skips its element
    if not prog.get("hook_faults") and not prog.get("cleanups") and draw(st.integers(0, 3)) == 0:
        prog["hook_faults"] = [[draw(st.integers(0, 10000)), "skip"]]
    # ... or a before_scenario hook switches the background off for its scenario (scenario.use_background = False)
    if not prog.get("hook_faults") and not prog.get("cleanups") and draw(st.integers(0, 4)) == 0 and \
            any(f.get("bg") or any(it["k"] == "r" and it.get("bg") for it in f["items"]) for f in prog["features"]):
        prog["hook_faults"] = [[draw(st.integers(0, 10000)), "no_background"]]
    names = draw(st.lists(st.sampled_from(FORMATTERS), min_size=1, max_size=5))
    if draw(st.integers(0, 2)) == 0 and "json" not in names:
        names.insert(draw(st.integers(0, len(names))), "json")
    case = {"program": prog, "formatters": names}
    if draw(st.integers(0, 2)) == 0:
        case["display"] = {"show_source": draw(st.booleans()), "show_timings": draw(st.booleans()),
                           "show_multiline": draw(st.booleans()),
                           "color": draw(st.sampled_from(["always", "always", "off"]))}
    if draw(st.integers(0, 5)) == 0:
        case["readback_file"] = True
    return case


@st.composite
def many_features_case(draw):
    """A run over MANY small feature files (a few dozen to a few hundred): the reports hold all of them."""
    n = draw(st.sampled_from([26, 33, 51, 64, 101, 130, 257]))
    outs = ["pass", "pass", "pass", "fail", "undefined", "skip"]
    feats = []
    for _ in range(n):
        feats.append({"tags": draw(gen.tags_st(1)), "items": [
            {"k": "s", "tags": [], "steps": [{"kw": "Given", "o": draw(st.sampled_from(outs))}]}
            for _ in range(draw(st.integers(1, 2)))]})
    prog = {"features": feats, "cfg": draw(gen.cfg_st(flags=(), p_tags=0.3)), "big": "many-features"}
    names = draw(st.lists(st.sampled_from(FORMATTERS), min_size=1, max_size=3))
    if "json" not in names and "json.pretty" not in names:
        names.insert(draw(st.integers(0, len(names))), draw(st.sampled_from(["json", "json.pretty"])))
    return {"program": prog, "formatters": names}


def explore(rec):
    quick = rec.tier == "quick"
    rec.hyp("formatter-runs", case_st(), 12000 if quick else 160000)
    rec.hyp("many-features", many_features_case(), 64 if quick else 1500)
    rec.hyp("library-route", gen.program_st(faults=False, max_features=2, outcomes=["pass", "pass", "fail", "undefined"],
                                            big_dims=["rows", "items", "steps", "tags", "lead"],
                                            cfg=gen.cfg_st(flags=("stop",), p_tags=0.3)).map(
        lambda p: {"kind": "library", "program": p}), 300 if quick else 6000)


def required_labels(tier):
    return ["fmt:" + f for f in FORMATTERS] + ["json:background-steps", "nested-steps", "nested-steps+verbose", "rule-background", "outline", "failure", "deselection", "dry-run",
                                               "dry-run+undefined", "readback:file", "skipped-by-hook:feature", "skipped-by-hook:scenario",
                                               "skipped-by-hook:rule", "display:pretty-coloured-without-source", "background-switched-off-by-hook", "library-route:more-formatters-than-outfiles"]


KNOWN_PREDICATES = {}
RULE = RULE + " " + ('A third of the cases set display options (show_source, show_timings, show_multiline, colour always / off): they change what text formatters print, never the event stream or the run.')
