# -*- coding: utf-8 -*-
"""C14 -- Summary conservation: every element counted once under its final status."""
from __future__ import annotations

import io
import re
from collections import Counter

from hypothesis import strategies as st

from .. import gen, runcheck
from ..core import CaseResult

ID = "C14"
LEVEL = "exploration"
RULE = ("Random programs of the C01 generator (trees with rules, backgrounds, outlines; all outcomes; selections; "
        "--stop / abort remainders; hook faults; raising cleanups; dry-run) are run with the summary reporter (dict based) "
        "in all five output formats and with the collector based reporter; an independent census of the model after the "
        "run (features, rules, scenarios incl. outline rows, steps incl. per-scenario background copies, by final status) "
        "must equal the reporter tables, the collector counts and the numbers parsed back from every printed format; the "
        "failing / errored scenario lists must be exactly the failed / error-class scenarios. Non-trivial = at least 3 "
        "distinct statuses among all counted elements.")
ASSUMPTIONS = [
    "a status part that a format hides because it is zero is read back as 0",
    "durations and the order of the printed parts are not compared",
]
SIMPLIFY = {"o": lambda v: "pass" if not v.startswith("<") else None, "tagx": "nullable", "bg": "nullable"}
WATCHDOG_S = {"quick": 900, "thorough": 4 * 3600}

FORMATS = ["v1", "v1A", "v1B", "v2", "v3"]
KINDS = ["feature", "rule", "scenario", "step"]
ERROR_CLASS = {"error", "hook_error", "undefined", "pending", "cleanup_error"}


def census(features, ran_object=lambda s: s):
    from behave.model import Rule, ScenarioOutline
    counts = {k: Counter() for k in KINDS}
    failed, errored = [], []

    def scen(s):
        counts["scenario"][s.status.name] += 1
        if s.status.name == "failed":
            failed.append((u"%s" % s.location, s.name))
        elif s.status.name in ERROR_CLASS:
            errored.append((u"%s" % s.location, s.name))
        for stp in s.all_steps:
            counts["step"][stp.status.name] += 1

    def items(container):
        for x in container.run_items:
            if isinstance(x, Rule):
                counts["rule"][x.status.name] += 1
                items(x)
            elif isinstance(x, ScenarioOutline):
                for row in x.scenarios:
                    scen(ran_object(row))     # the row object that RAN (not a rebuilt copy)
            else:
                scen(ran_object(x))
    for f in features:
        counts["feature"][f.status.name] += 1
        items(f)
    return counts, failed, errored


STATUS_NAMES = ["passed", "failed", "error", "hook_error", "cleanup_error", "skipped", "pending", "pending_warn",
                "undefined", "untested", "untested_pending", "untested_undefined"]


def parse_line(fmt, line):
    """-> (kind, total or None, {status: count}) or None"""
    line = line.strip()
    if fmt == "v1":
        parts = [p.strip() for p in line.split(",")]
        m = re.match(r"^(\d+) (feature|rule|scenario|step)s? passed$", parts[0])
        if not m:
            return None
        kind = m.group(2)
        counts = {"passed": int(m.group(1))}
        for p in parts[1:]:
            m2 = re.match(r"^(\d+) (\w+)$", p)
            if not m2:
                return None
            counts[m2.group(2)] = int(m2.group(1))
        return kind, None, counts
    if fmt in ("v2", "v3"):
        m = re.match(r"^(\d+)\s+(feature|rule|scenario|step)s?\s*\((.*)\)$", line)
        if not m:
            return None
        counts = {}
        for p in m.group(3).split(","):
            p = p.strip()
            if not p:
                continue
            m2 = re.match(r"^(\w+): (\d+)$", p)
            if not m2:
                return None
            counts[m2.group(1)] = int(m2.group(2))
        return m.group(2), int(m.group(1)), counts
    if fmt == "v1A":
        parts = [p.strip() for p in line.split(",")]
        m = re.match(r"^(\d+) (feature|rule|scenario|step)s?$", parts[0])
        if not m:
            return None
        counts = {}
        for p in parts[1:]:
            m2 = re.match(r"^(\d+) (\w+)$", p)
            if not m2:
                return None
            counts[m2.group(2)] = int(m2.group(1))
        return m.group(2), int(m.group(1)), counts
    if fmt == "v1B":
        parts = [p.strip() for p in line.split(",")]
        m = re.match(r"^(\d+) (feature|rule|scenario|step)s? passed$", parts[0])
        if not m:
            return None
        counts = {"passed": int(m.group(1))}
        for p in parts[1:]:
            m2 = re.match(r"^(\d+) (\w+)$", p)
            if not m2:
                return None
            counts[m2.group(2)] = int(m2.group(1))
        return m.group(2), None, counts
    raise ValueError(fmt)


def parse_listing(text):
    """'Failing scenarios:' / 'Errored scenarios:' sections -> (failing, errored) as lists of (location, name)"""
    failing, errored = [], []
    cur = None
    for line in text.splitlines():
        if line.startswith("Failing scenarios:"):
            cur = failing
        elif line.startswith("Errored scenarios:"):
            cur = errored
        elif line.startswith("  ") and cur is not None:
            # "  <location>  <name>"
            body = line[2:]
            idx = body.find("  ")
            cur.append((body[:idx], body[idx + 2:]) if idx >= 0 else (body, u""))
        else:
            cur = None
    return failing, errored


EMPTY_FILES = [u"", u"# only a comment\n", u"# language: de\n", u"\n\n"]


def check_disk(case):
    """The standard Runner on a scratch project (feature files next to legal feature-less *.feature files), summary
    on stdout: every element that is WRITTEN in the feature files is counted exactly once (whatever its status)."""
    from .. import disk
    from ..program import all_steps_of, normalize, scenario_instances
    res = CaseResult()
    prog = runcheck.resolve_faults(case["program"])
    normalize(prog)
    prog["cfg"] = dict(prog.get("cfg") or {}, summary=True)
    extra = dict((name, EMPTY_FILES[k % len(EMPTY_FILES)]) for name, k in (case.get("empty_files") or {}).items())
    proj = disk.Project(prog, extra_files=extra)
    try:
        argv = disk.cli_args(prog["cfg"]) + ["-f", "null", "features"]
        if case.get("junit"):
            # another reporter stands in front of the summary reporter (--junit): the summary accounts for the same
            argv = ["--junit", "--junit-directory", "reports"] + argv
            res.label("disk:junit-reporter-in-front")
            if prog["cfg"].get("stop"):
                res.label("disk:junit+stop")
        run = disk.run_inproc(proj, argv, prog)
        interrupted = any(k == "KeyboardInterrupt" for _i, k in prog.get("hook_faults") or [])
        if interrupted and isinstance(run.escaped, KeyboardInterrupt):
            res.label("disk:interrupt-escaped")     # before_all / after_all: the interrupt leaves run() itself
            return res
        if run.escaped is not None:
            res.fail("C14.disk.escape", "Runner.run() raised %r" % (run.escaped,))
            return res
        if interrupted:
            res.label("disk:interrupted-in-hook")
            hooks_at = [h for i, h in enumerate(run.hooks) if [i, "KeyboardInterrupt"] in [list(x) for x in prog["hook_faults"]]]
            if any(h[0] in ("before_step", "after_step") for h in hooks_at):
                res.label("disk:interrupted-in-step-hook")
        written = {"feature": len(prog["features"]), "rule": 0, "scenario": 0, "step": 0}
        for feat in prog["features"]:
            written["rule"] += sum(1 for it in feat["items"] if it["k"] == "r")
            for inst in scenario_instances(feat):
                written["scenario"] += 1
                written["step"] += len(all_steps_of(feat, inst))
        found = {}
        for line in run.stdout.splitlines():
            for fmt in ("v1", "v2", "v1A"):
                parsed = parse_line(fmt, line)
                if parsed:
                    kind, total, counts = parsed
                    found.setdefault(kind, total if total is not None else sum(counts.values()))
                    break
        for kind in ("feature", "scenario", "step"):
            if kind not in found:
                res.fail("C14.disk.missing-line", "no summary line for %ss in %r" % (kind, run.stdout[-300:]))
            elif found[kind] != written[kind]:
                res.fail("C14.disk.count", "the summary counts %d %ss, the feature files contain %d (features run: %s)"
                         % (found[kind], kind, written[kind], [f.filename for f in run.features]))
        if written["rule"] and found.get("rule", written["rule"]) != written["rule"]:
            res.fail("C14.disk.count", "the summary counts %d rules, the feature files contain %d"
                     % (found["rule"], written["rule"]))
        if len(set(id(f) for f in run.features)) != len(run.features):
            res.fail("C14.disk.feature-twice", "the runner holds the same feature object more than once: %s"
                     % [f.filename for f in run.features])
        res.label("disk")
        if extra:
            res.label("disk:feature-less-files")
        res.nontrivial = written["scenario"] >= 2
    finally:
        proj.close()
    return res


def check(case):
    if case.get("kind") == "disk":
        return check_disk(case)
    from behave.reporter.summary import SummaryReporterV1
    from behave.summary import SummaryCollector
    res = CaseResult()
    streams = {}

    early = []

    def reporters(config):
        # a collector that is fed feature by feature while the run goes on, IN FRONT of the summary reporters
        # (the position of the JUnit reporter's collector): it is the first reader of each feature
        from behave.reporter.base import Reporter

        class Collecting(Reporter):
            def __init__(self, config_):
                super(Collecting, self).__init__(config_)
                self.collector = SummaryCollector()

            def feature(self, feature):
                self.collector.visit_feature(feature)

            def end(self):
                pass
        early.append(Collecting(config))
        reps = [early[0]]
        for fmt in FORMATS:
            r = SummaryReporterV1(config)
            r.output_format = fmt
            r.stream = streams.setdefault(("V1", fmt), io.StringIO())
            reps.append(r)
        return reps

    prog, ref, run = runcheck.run_and_ref(case["program"], reporters=reporters)
    if isinstance(run.escaped, KeyboardInterrupt) and case.get("interrupt"):
        # interrupt in before_all / after_all leaves run() itself: nothing is summarised
        res.label("interrupt-escaped")
        return res
    if run.escaped is not None:
        res.fail("C14.escape", "exception escaped run() with summary reporters: %r" % (run.escaped,))
        return res
    lookup = runcheck.ran_object_lookup(run)
    counts, failed, errored = census(run.features, lookup)
    # -- what the RUN demands (reference model) of each scenario, whatever behave's model says afterwards
    floors = runcheck.status_floor(ref, prog)
    inst_names = [i["name"] for _f, i in runcheck.instances(prog)]
    for f in run.features:
        for s in f.walk_scenarios():
            want_class = floors.get(s.name)
            if want_class and inst_names.count(s.name) == 1 and \
                    runcheck.status_class(lookup(s).status.name) != want_class:
                res.fail("C14.status-vs-run", "scenario %r ended in the %s class in the run (reference model) but is "
                         "counted as %s" % (s.name, want_class, lookup(s).status.name))
    reps = run.config.reporters
    rep_v1 = reps[1]
    # the collector implementation (model visitor), fed with the model after the run
    rep_v2 = SummaryCollector()
    for f in run.features:
        rep_v2.visit_feature(f)

    # -- 1. reporter tables == census, sums == number of elements
    tables = {"feature": rep_v1.feature_summary, "rule": rep_v1.rule_summary,
              "scenario": rep_v1.scenario_summary, "step": rep_v1.step_summary}
    for kind in KINDS:
        table = dict(tables[kind])
        total = table.pop("all", None)
        n = sum(counts[kind].values())
        for status in set(table) | set(counts[kind]):
            if table.get(status, 0) != counts[kind].get(status, 0):
                res.fail("C14.reporter.count", "%s/%s: reporter %d, model %d"
                         % (kind, status, table.get(status, 0), counts[kind].get(status, 0)))
                break
        if total is not None and total != n:
            res.fail("C14.reporter.total", "%s total %s but %d elements" % (kind, total, n))

    # -- 2. collector == census (fed after the run / fed during the run as the first reader of every feature)
    # ... and through the collector's call API, one model element at a time (what a user-defined reporter does:
    # `self.collect = SummaryCollector()` ... `self.collect(feature)`)
    rep_v3 = SummaryCollector()
    for f in run.features:
        rep_v3(f)
    for where, collector in (("", rep_v2), ("first-reader.", early[0].collector), ("call-api.", rep_v3)):
        sc = collector.summary_counts
        coll = {"feature": sc.features, "rule": sc.rules, "scenario": sc.scenarios, "step": sc.steps}
        for kind in KINDS:
            got = {k.name: v for k, v in coll[kind].items() if v}
            want = {k: v for k, v in counts[kind].items() if v}
            if got != want:
                res.fail("C14.collector.%scount" % where, "%s: collector %s, model %s" % (kind, got, want))
            if coll[kind].all != sum(counts[kind].values()):
                res.fail("C14.collector.%stotal" % where, "%s: collector total %s, %d elements"
                         % (kind, coll[kind].all, sum(counts[kind].values())))

    # -- 3. printed numbers, all formats
    for (impl, fmt), stream in sorted(streams.items()):
        text = stream.getvalue()
        seen = {}
        for line in text.splitlines():
            parsed = parse_line(fmt, line)
            if parsed:
                seen[parsed[0]] = parsed
        for kind in KINDS:
            n = sum(counts[kind].values())
            if kind not in seen:
                if kind == "rule" and n == 0:
                    continue
                res.fail("C14.print.%s.missing-line" % fmt, "no %s line in %s output of %s: %r" % (kind, fmt, impl, text[-300:]))
                continue
            _k, total, printed = seen[kind]
            for status in set(printed) | set(counts[kind]):
                if printed.get(status, 0) != counts[kind].get(status, 0):
                    res.fail("C14.print.%s.count" % fmt, "%s %s: printed %s=%d, model %d (line set: %s)"
                             % (impl, kind, status, printed.get(status, 0), counts[kind].get(status, 0), printed))
                    break
            if total is not None and total != n:
                res.fail("C14.print.%s.total" % fmt, "%s %s: printed total %d, %d elements" % (impl, kind, total, n))
        # -- 4. listing of failing / errored scenarios
        lf, le = parse_listing(text)
        if sorted(lf) != sorted(failed):
            res.fail("C14.listing.failing", "%s/%s lists failing %s, model has %s" % (impl, fmt, lf, failed))
        if sorted(le) != sorted(errored):
            res.fail("C14.listing.errored", "%s/%s lists errored %s, model has %s" % (impl, fmt, le, errored))
    # collector's own lists
    cf = sorted((u"%s" % s.location, s.name) for s in rep_v2.failed_scenarios)
    ce = sorted((u"%s" % s.location, s.name) for s in rep_v2.errored_scenarios)
    if cf != sorted(failed):
        res.fail("C14.collector.failed-list", "collector lists failed %s, model has %s" % (cf, sorted(failed)))
    if ce != sorted(errored):
        res.fail("C14.collector.errored-list", "collector lists errored %s, model has %s" % (ce, sorted(errored)))

    statuses = set()
    for kind in KINDS:
        statuses.update(counts[kind])
    res.nontrivial = len(statuses) >= 3
    for s in statuses:
        res.label("status:" + s)
    if ref.untouched:
        res.label("cut-short")
    if counts["rule"]:
        res.label("has-rule")
    if prog.get("hook_faults"):
        res.label("hook-fault")
    if prog.get("fname_fmt") and (failed or errored):
        res.label("listing:long-locations")
    if len(prog["features"]) >= 2 and len(set(f["name"] for f in prog["features"])) == 1:
        res.label("same-titled-features")
    if case.get("interrupt"):
        res.label("interrupted-in-hook")
    if (prog.get("cfg") or {}).get("dry_run"):
        res.label("dry-run")
    return res


@st.composite
def interrupted_case(draw):
    """A KeyboardInterrupt (or context.abort()) inside a hook cuts the run short."""
    prog = draw(gen.program_st(faults=False, max_features=3))
    kind = draw(st.sampled_from(["KeyboardInterrupt", "KeyboardInterrupt", "abort"]))
    prog["hook_faults"] = [[draw(st.integers(0, 10000)), kind]]
    return {"program": prog, "interrupt": True}


@st.composite
def disk_case(draw):
    prog = draw(gen.program_st(faults=False, max_features=3, cfg=gen.cfg_st(flags=("dry_run", "stop"), p_tags=0.3)))
    case = {"kind": "disk", "program": prog}
    if draw(st.integers(0, 2)) == 0:
        case["junit"] = True
    if draw(st.booleans()):
        # legal *.feature files without a feature, sorted before / between / after the real ones
        names = draw(st.lists(st.sampled_from(["a0.feature", "f0x.feature", "f1x.feature", "zz.feature", "sub/e.feature"]),
                              min_size=1, max_size=3, unique=True))
        case["empty_files"] = dict((n, draw(st.integers(0, 3))) for n in names)
    if not prog["cfg"].get("dry_run") and draw(st.integers(0, 2)) == 0:
        # Ctrl-C while a hook runs: the run is cut short, the summary on stdout still accounts for everything written
        prog["hook_faults"] = [[draw(st.integers(0, 10000)), "KeyboardInterrupt"]]
    return case


LONG_DIR = u"features/regression/customer_portal/account_settings/notification_preferences_%d.feature"


@st.composite
def run_case(draw):
    prog = draw(gen.program_st())
    v = draw(st.integers(0, 11))
    if v <= 1:
        # the feature files live deep down: 'file:line' is longer than a line of a terminal
        prog["fname_fmt"] = LONG_DIR
    elif v == 2 and len(prog["features"]) >= 2:
        # several feature files with the same title (features/web/login.feature, features/api/login.feature)
        for f in prog["features"]:
            f["name"] = u"Login"
    return {"program": prog}


def explore(rec):
    quick = rec.tier == "quick"
    rec.hyp("disk-route", disk_case(), 1500 if quick else 30000)
    rec.hyp("runs", run_case(), 6000 if quick else 150000)
    rec.hyp("interrupted-in-hook", interrupted_case(), 1500 if quick else 30000)


def required_labels(tier):
    return ["status:" + s for s in ["passed", "failed", "error", "hook_error", "skipped", "untested", "undefined",
                                    "pending", "pending_warn"]] + ["cut-short", "has-rule", "hook-fault", "dry-run", "interrupted-in-hook", "disk", "disk:feature-less-files", "disk:interrupted-in-step-hook", "listing:long-locations", "same-titled-features", "disk:junit+stop"]


KNOWN_PREDICATES = {}


RULE = RULE + " " + ("Scenario statuses are read from the Scenario objects that ran, and the status class of every scenario (failed / error / passed) is demanded by the reference model (outcomes of the generated steps, injected hook and cleanup faults), not by behave's model.")
RULE = RULE + " " + ('A third of the disk-route runs are interrupted (KeyboardInterrupt) inside a hook; the summary printed on the real stdout still counts every written element once.')
