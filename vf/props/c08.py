# -*- coding: utf-8 -*-
"""C08 -- v1 tag expressions keep their meaning; dialect auto-detection never misreads."""
from __future__ import annotations

import itertools

from hypothesis import strategies as st

from .. import tagref
from ..core import CaseResult
from . import c07

ID = "C08"
LEVEL = "exploration"
RULE = ("(v1) conjunctive-normal-form formulas: 1..3 argument groups x 1..3 comma alternatives, every literal optionally "
        "negated with '-' or '~', with/without '@', with/without a ':N' limit suffix (one limit per tag), given as argument "
        "list, as one blank-separated string (also with double / leading / trailing blanks) or as separate --tags options of a "
        "real Configuration; parsed with protocol v1 and auto_detect (passed explicitly, as process-wide current protocol, or "
        "as configuration setting); all formulas with <= 2 literals over 4 tags x 12 decorations are enumerated, larger ones "
        "are random. Oracle: AND of groups, OR inside a group, prefix negates, over ALL 128 subsets of a 7-tag universe that "
        "contains tags with 'or' / 'and' / 'not' as substrings. (v2) the C07 trees and renderings over this universe under "
        "auto_detect (explicit, current, or --tags options of a Configuration) must have their Boolean-formula meaning. "
        "(mixed) a v2 text (>= 1 and/or/not word) in which >= 1 "
        "operand carries the v1 negation prefix must raise TagExpressionError under auto_detect. Non-trivial = >= 2 groups "
        "or a negation (v1), >= 2 operators or a wildcard (v2), every mixed text.")
ASSUMPTIONS = [
    "pure old-style = words made of tag names (no wildcard characters, no parentheses, not the words and/or/not) with the "
    "documented decorations '-' '~' '@' ',' and ':N'; pure new-style = and/or/not/parentheses over operands without comma, "
    "without leading '-' or '~' and without ':N' suffix. With these alphabets the only texts in both languages are a single "
    "undecorated tag and a list of single undecorated tags, which mean the same in both dialects",
    "old-style texts that use a tag literally named and / or / not are well-formed in both dialects with different meanings: "
    "generated with low weight, counted as 'excluded:both-dialects' and not judged under auto_detect (judged under v1)",
    "a ':N' limit does not change which tag sets an expression selects; limits of one tag are consistent",
    "texts that combine a comma (without negation prefix) or a prefixed wildcard with v2 operators are not covered by the "
    "statement and are not generated",
]
SIMPLIFY = {"neg": "", "how": "explicit", "form": "list"}
WATCHDOG_S = {"quick": 900, "thorough": 4 * 3600}

# (two tag names contain an operator word delimited by punctuation: still one tag name in either dialect)
# (one is written with non-ASCII letters, one ends in an operator word)
UNIVERSE = ["a", u"gr\u00f6\u00dfe", "order", "android", "notebook", "not.ready", "k-or-v=1", "cannot"]
U = c07.Universe(UNIVERSE)
KEYWORDS = ("and", "or", "not")

V1_ENUM_TAGS = ["a", "order", "not.ready", "k-or-v=1"]
V1_TAGS = UNIVERSE + ["absent", "sandbox"]
V1_KEYWORD_TAGS = list(KEYWORDS)

V2_ENUM_OPERANDS = [["tag", "a"], ["tag", "order"], ["tag", "notebook"], ["glob", "*or*"], ["glob", "and*"]]
V2_OPERANDS = [["tag", t] for t in V1_TAGS] + [
    ["glob", "*or*"], ["glob", "and*"], ["glob", "not*"], ["glob", "?rder"], ["glob", "*.ready"], ["glob", "k-*"],
    ["glob", "[ab]"], ["glob", "*and*"]]
MIXED_ENUM_OPERANDS = [["tag", "a"], ["tag", "order"], ["tag", "-a"], ["tag", "~order"], ["tag", "-@notebook"],
                       ["tag", "~@k-or-v=1"]]

PROTOCOLS = ("v1", "auto")
# "grown-list": ONE list object gets the argument groups appended one by one, an expression is made after every step
#   (config.tags.append(...); config.setup_tag_expression() in before_all) -- the last expression is the one checked;
# "class-iter": the legacy class behave.tag_expression.TagExpression used directly with a one-shot iterable of arguments
# "config-text": the expression reaches Configuration.setup_tag_expression(tags=...) as ONE text (public method, called
#   by user code in before_all)
HOWS = ("explicit", "current", "config", "grown-list", "class-iter", "config-text")
FORMS = ("list", "list-blanks", "string", "string-blanks")


# ---------------------------------------------------------------------------
# v1 formulas
# ---------------------------------------------------------------------------
def lit_text(lit):
    text = lit["neg"] + (u"@" if lit["at"] else u"") + lit["t"]
    if lit["lim"] is not None:
        text += u":%d" % lit["lim"]
    return text


def v1_args(groups):
    return [u",".join(lit_text(lit) for lit in group) for group in groups]


def v1_render(groups, form):
    args = v1_args(groups)
    if form == "list":
        return args
    if form == "list-blanks":
        # blanks around the comma / the argument (as in  --tags="@a, @b"  or a config-file line  tags = @a, @b):
        # white space never separates alternatives INSIDE one argument, tags are stripped
        seps = (u", ", u" , ", u" ,")
        out = []
        for gi, group in enumerate(groups):
            text = lit_text(group[0])
            for li, lit in enumerate(group[1:]):
                text += seps[(gi + li) % 3] + lit_text(lit)
            out.append(u" " + text + u" " if gi % 2 else text)
        return out
    if form == "string":
        return u" ".join(args)
    if form == "string-blanks":
        return u" " + u"  ".join(args) + u" "
    raise ValueError(form)


def v1_ast(groups):
    clauses = []
    for group in groups:
        lits = [["not", ["tag", lit["t"]]] if lit["neg"] else ["tag", lit["t"]] for lit in group]
        clauses.append(lits[0] if len(lits) == 1 else ["or"] + lits)
    return clauses[0] if len(clauses) == 1 else ["and"] + clauses


def cnf_table(groups):
    """The documented meaning, written out directly (not through the v2-shaped AST)."""
    out = []
    for subset in U.subsets:
        present = set(subset)
        out.append(all(any((lit["t"] in present) != bool(lit["neg"]) for lit in group) for group in groups))
    return tuple(out)


def valid_v1(groups):
    if not isinstance(groups, list) or not 1 <= len(groups):
        return False
    limits = {}
    for group in groups:
        if not isinstance(group, list) or not group:
            return False
        for lit in group:
            if not isinstance(lit, dict) or set(lit) != {"t", "neg", "at", "lim"}:
                return False
            if lit["neg"] not in ("", "-", "~") or not lit["t"] or not isinstance(lit["at"], bool):
                return False
            if lit["lim"] is not None:
                if limits.setdefault(lit["t"], lit["lim"]) != lit["lim"]:
                    return False
    return True


def valid_case(case):
    try:
        kind = case["kind"]
        if kind == "v1":
            if case["how"] in ("config", "grown-list", "class-iter") and case["form"] not in ("list", "list-blanks"):
                return False
            if case["how"] == "class-iter" and case["protocol"] != "v1":
                return False
            if case["how"] == "config-text" and case["form"] not in ("string", "string-blanks"):
                return False
            return (valid_v1(case["groups"]) and case["form"] in FORMS and case["protocol"] in PROTOCOLS
                    and case["how"] in HOWS)
        if kind == "v2":
            return c07.valid_ast(case["ast"]) and case["form"] in ("text", "list") and case["how"] in HOWS
        if kind in ("mixed", "cli"):
            return c07.valid_ast(case["ast"]) and _is_mixed(c07.render(case["ast"], case["v"], case["form"]))
    except (KeyError, TypeError, IndexError):
        return False
    return False


# ---------------------------------------------------------------------------
# own reading of a text as words (for the preconditions of the mixed class)
# ---------------------------------------------------------------------------
def words_of(text_or_list):
    text = u" ".join(text_or_list) if isinstance(text_or_list, list) else text_or_list
    return text.replace(u"(", u" ( ").replace(u")", u" ) ").split()


def _is_mixed(rendered):
    words = words_of(rendered)
    return (any(w in KEYWORDS for w in words) and any(w[0] in u"-~" for w in words)
            and not any(u"," in w for w in words))


# ---------------------------------------------------------------------------
# check
# ---------------------------------------------------------------------------
def _protocol(name):
    from behave.tag_expression import TagExpressionProtocol
    return TagExpressionProtocol.V1 if name == "v1" else TagExpressionProtocol.AUTO_DETECT


def build(arg, protocol_name, how, as_tuple=False):
    """Build the expression object in the requested way; always leaves the process-wide protocol at its default."""
    from behave.tag_expression import TagExpressionProtocol, make_tag_expression
    protocol = _protocol(protocol_name)
    if as_tuple and isinstance(arg, list) and how != "config":
        arg = tuple(arg)        # any sequence of strings is a list of terms
    try:
        if how == "explicit":
            return make_tag_expression(arg, protocol)
        if how == "grown-list":
            if not isinstance(arg, (list, tuple)):
                raise ValueError("grown-list needs the argument-list form")
            grown = []
            expr = None
            for term in arg:
                grown.append(term)
                expr = make_tag_expression(grown, protocol)
            return expr
        if how == "config-text":
            from behave.configuration import Configuration
            if isinstance(arg, (list, tuple)):
                raise ValueError("config-text needs the one-string form")
            config = Configuration([], load_config=False, tag_expression_protocol=protocol)
            config.setup_tag_expression(tags=arg)
            return config.tag_expression
        if how == "class-iter":
            from behave.tag_expression import TagExpression
            if not isinstance(arg, (list, tuple)) or protocol_name != "v1":
                raise ValueError("class-iter needs the argument-list form and the v1 dialect")
            return TagExpression(a for a in list(arg))
        if how == "current":
            TagExpressionProtocol.use(protocol)
            return make_tag_expression(arg)
        if how == "config":
            from behave.configuration import Configuration
            if not isinstance(arg, list):
                raise ValueError("config needs the argument-list form")
            config = Configuration([u"--tags=" + a for a in arg], load_config=False,
                                   tag_expression_protocol=protocol)
            return config.tag_expression
        raise ValueError(how)
    finally:
        TagExpressionProtocol.use(TagExpressionProtocol.DEFAULT)


def check(case):
    kind = case["kind"]
    if not valid_case(case):
        raise ValueError("malformed case")
    if kind == "v1":
        return check_v1(case)
    if kind == "v2":
        return check_v2(case)
    if kind == "mixed":
        return check_mixed(case)
    if kind == "cli":
        return check_cli(case)
    raise ValueError(kind)


def _one_line(e):
    return "%s: %s" % (type(e).__name__, " / ".join(str(e).splitlines())[:300])


def check_v1(case):
    from behave.tag_expression.parser import TagExpressionError
    res = CaseResult()
    groups, form, protocol, how = case["groups"], case["form"], case["protocol"], case["how"]
    arg = v1_render(groups, form)
    lits = [lit for group in groups for lit in group]
    res.evals = len(U.subsets)
    res.nontrivial = len(groups) >= 2 or any(lit["neg"] for lit in lits)
    res.label("v1", "v1:" + form, "protocol:" + protocol, "how:" + how,
              "v1:groups=%d" % min(len(groups), 3), "v1:alternatives=%d" % min(max(len(g) for g in groups), 3))
    for name, flag in (("v1:minus", any(lit["neg"] == "-" for lit in lits)),
                       ("v1:tilde", any(lit["neg"] == "~" for lit in lits)),
                       ("v1:at", any(lit["at"] for lit in lits)),
                       ("v1:negated-at", any(lit["at"] and lit["neg"] for lit in lits)),
                       ("v1:limit", any(lit["lim"] is not None for lit in lits)),
                       ("v1:keyword-substring-tag", any(lit["t"] in ("order", "android", "notebook", "sandbox")
                                                        for lit in lits)),
                       ("v1:operator-word-inside-tag", any(lit["t"] in ("not.ready", "k-or-v=1") for lit in lits)),
                       ("v1:operator-word-at-end-of-tag", any(lit["t"] == "cannot" for lit in lits)),
                       ("v1:non-ascii-tag", any(lit["t"] == UNIVERSE[1] for lit in lits))):
        if flag:
            res.label(name)
    keyword_named = any(lit["t"] in KEYWORDS for lit in lits)
    if keyword_named:
        res.label("v1:keyword-named-tag")
        if protocol == "auto":
            res.label("excluded:both-dialects")
            res.nontrivial = False
            return res
    bare_limit = (protocol == "auto" and len(lits) == 1 and not lits[0]["neg"] and lits[0]["lim"] is not None)
    if bare_limit:
        res.label("v1:bare-tag-with-limit")
        where = "C08.auto-detect.bare-tag-with-limit"
    elif protocol == "auto":
        where = "C08.auto-detect.v1-text"
    else:
        where = "C08.v1"
    want = cnf_table(groups)
    if want != U.expected(v1_ast(groups)):
        raise AssertionError("the two own evaluators disagree")
    try:
        expr = build(arg, protocol, how, as_tuple=len(groups) % 2 == 0)
    except TagExpressionError as e:
        res.fail(where if bare_limit else where + ".rejected",
                 "old-style %r (protocol %s, %s) is rejected: %s" % (arg, protocol, how, _one_line(e)), text=arg)
        return res
    got = U.observed(expr)
    diff = U.first_diff(want, got)
    if diff:
        res.fail(where if bare_limit else where + ".truth-table",
                 "old-style %r (protocol %s, %s) became %r: for tags %s the documented meaning is %s, check() says %s"
                 % (arg, protocol, how, expr, diff[0], diff[1], diff[2]), text=arg, built=repr(expr))
    return res


def check_v2(case):
    from behave.tag_expression.parser import TagExpressionError
    res = CaseResult()
    ast, variant, form, how = case["ast"], case["v"], case["form"], case["how"]
    arg = c07.render(ast, variant, form)
    res.evals = len(U.subsets)
    c07.common_labels(res, ast, variant, form)
    res.label("v2-auto", "how:" + how)
    ops = tagref.operands(ast)
    if c07.count_ops(ast) == 0:
        res.label("v2-auto:single-operand")
    if any(k in o[1] and o[0] == "tag" for o in ops for k in KEYWORDS):
        res.label("v2-auto:keyword-substring-tag")
    want = U.expected(ast)
    try:
        # -- a real command line: every term (or the whole text) is one --tags option
        expr = build(arg if (how != "config" or isinstance(arg, list)) else [arg], "auto", how,
                     as_tuple=bool(variant & 4))
    except TagExpressionError as e:
        res.fail("C08.auto-detect.v2-text.rejected", "new-style %r is rejected under auto_detect: %s"
                 % (arg, _one_line(e)), text=arg)
        return res
    diff = U.first_diff(want, U.observed(expr))
    if diff:
        res.fail("C08.auto-detect.v2-text.truth-table",
                 "new-style %r became %r under auto_detect: for tags %s the formula is %s, check() says %s"
                 % (arg, expr, diff[0], diff[1], diff[2]), text=arg, built=repr(expr))
    return res


def check_mixed(case):
    from behave.tag_expression.parser import TagExpressionError
    res = CaseResult()
    ast, variant, form = case["ast"], case["v"], case["form"]
    arg = c07.render(ast, variant, form)
    res.nontrivial = True
    res.label("mixed", "mixed:" + form)
    words = words_of(arg)
    for k in KEYWORDS:
        if k in words:
            res.label("mixed:" + k)
    try:
        expr = build(arg, "auto", "explicit")
    except TagExpressionError:
        if not isinstance(arg, list):
            return res
        # the same terms as a tuple: any sequence of strings is accepted as a list of terms
        res.label("mixed:tuple")
        try:
            expr = build(arg, "auto", "explicit", as_tuple=True)
        except TagExpressionError:
            return res
    res.fail("C08.mixed.not-rejected",
             "%r mixes the old negation prefix with new-style operators but is accepted under auto_detect as %r"
             % (arg, expr), text=arg, built=repr(expr))
    return res


CLI_PROGRAM = {"features": [{"tags": [], "items": [
    {"k": "s", "tags": ["a"], "steps": [{"kw": "Given", "o": "pass"}]},
    {"k": "s", "tags": ["b"], "steps": [{"kw": "Given", "o": "pass"}]}]}]}


def check_cli(case):
    """The command line: a mixed expression ends the run as a failure (non-zero exit status, the error named,
    nothing executed); the control run with a plain new-style expression on the same project succeeds."""
    import copy
    from .. import disk
    from ..program import normalize
    res = CaseResult()
    arg = c07.render(case["ast"], case["v"], case["form"])
    terms = arg if isinstance(arg, list) else [arg]
    prog = copy.deepcopy(CLI_PROGRAM)
    normalize(prog)
    res.nontrivial = True
    res.label("cli:mixed", "cli:terms=%d" % min(len(terms), 3), "cli:via=%s" % case.get("via", "cmdline"))
    if case.get("via") == "ini":
        import os
        proj_args, env_extra = [], None
        prog["_ini"] = u"[behave]\ntags = %s\n" % u"\n    ".join(terms)
    else:
        proj_args = ["--tags=%s" % t for t in terms]
    run = _run_cli(prog, proj_args)
    text = run.stdout + run.stderr
    ran = [e for e in (run.log or {}).get("calls", [])]
    if run.returncode == 0:
        res.fail("C08.cli.mixed-exit-status", "behave %r: the mixed expression is reported (%r) but the process exits "
                 "with status 0" % (proj_args or terms, text.strip()[-200:]))
    elif "TagExpressionError" not in text:
        res.fail("C08.cli.mixed-not-named", "behave %r exits with %d without naming the tag-expression problem: %r"
                 % (proj_args or terms, run.returncode, text.strip()[-300:]))
    if ran:
        res.fail("C08.cli.mixed-executed", "behave %r ran steps %r although the expression is rejected"
                 % (proj_args or terms, ran))
    control = _run_cli(copy.deepcopy(prog) if case.get("via") != "ini" else dict(copy.deepcopy(prog), _ini=u"[behave]\ntags = @a or @b\n"),
                       ["--tags=@a or @b"] if case.get("via") != "ini" else [])
    if control.returncode != 0:
        res.fail("C08.cli.control", "behave --tags='@a or @b' on the same project exits with %d: %r"
                 % (control.returncode, (control.stdout + control.stderr)[-300:]))
    return res


def _run_cli(prog, args):
    from .. import disk
    ini = prog.pop("_ini", None)
    proj = disk.Project(prog, extra_files={"../behave.ini": ini} if ini else None)
    import subprocess
    import sys
    import os
    import json
    try:
        p = subprocess.run([sys.executable, "-m", "behave", "-f", "plain", "--no-color"] + list(args), cwd=proj.root,
                           env=disk.child_env(proj.root), stdout=subprocess.PIPE, stderr=subprocess.PIPE, timeout=120)
        out = disk.CliResult()
        out.returncode = p.returncode
        out.stdout = p.stdout.decode("utf-8", "replace")
        out.stderr = p.stderr.decode("utf-8", "replace")
        out.log = None
        log_path = os.path.join(proj.root, "vf_log.json")
        if os.path.exists(log_path):
            with open(log_path) as f:
                out.log = json.load(f)
        return out
    finally:
        proj.close()


def cli_enum():
    seen = 0
    for c in mixed_enum(3):
        if c["v"] not in (0, 16):
            continue
        seen += 1
        yield dict(c, kind="cli", via="ini" if seen % 3 == 0 else "cmdline")


# ---------------------------------------------------------------------------
# generation
# ---------------------------------------------------------------------------
DECORATIONS = [{"neg": neg, "at": at, "lim": lim}
               for neg in ("", "-", "~") for at in (False, True) for lim in (None, 3)]


def _lit(tag, deco):
    return {"t": tag, "neg": deco["neg"], "at": deco["at"], "lim": deco["lim"]}


def v1_small_formulas(tags_one, tags_two):
    for tag in tags_one:
        for deco in DECORATIONS:
            yield [[_lit(tag, deco)]]
    pairs = [(t, d) for t in tags_two for d in DECORATIONS]
    for (t1, d1), (t2, d2) in itertools.product(pairs, repeat=2):
        yield [[_lit(t1, d1), _lit(t2, d2)]]
        yield [[_lit(t1, d1)], [_lit(t2, d2)]]


def v1_enum():
    index = 0
    for groups in v1_small_formulas(V1_TAGS, V1_ENUM_TAGS):
        for protocol in PROTOCOLS:
            for form in ("list", "list-blanks", "string"):
                index += 1
                how = "explicit"
                if form != "string" and index % 8 == 0:
                    how = "config"
                elif index % 5 == 0:
                    how = "current"
                yield {"kind": "v1", "groups": groups, "form": form, "protocol": protocol, "how": how}


@st.composite
def v1_case_st(draw):
    pool = draw(st.sampled_from([V1_TAGS] * 12 + [V1_TAGS + V1_KEYWORD_TAGS]))
    limits = {}
    ngroups = draw(st.integers(1, 3))
    groups = []
    for _ in range(ngroups):
        group = []
        for _ in range(draw(st.integers(1, 3))):
            tag = draw(st.sampled_from(pool))
            lim = None
            if draw(st.integers(0, 3)) == 0:
                if tag not in limits:
                    limits[tag] = draw(st.integers(0, 12))
                lim = limits[tag]
            group.append({"t": tag, "neg": draw(st.sampled_from(["", "", "-", "~"])), "at": draw(st.booleans()),
                          "lim": lim})
        groups.append(group)
    form = draw(st.sampled_from(FORMS))
    how = draw(st.sampled_from(["explicit", "explicit", "current", "config", "grown-list", "class-iter", "config-text"]))
    if how in ("config", "grown-list", "class-iter") and form not in ("list", "list-blanks"):
        form = "list"
    if how == "config-text" and form not in ("string", "string-blanks"):
        form = "string"
    protocol = draw(st.sampled_from(PROTOCOLS)) if how != "class-iter" else "v1"
    return {"kind": "v1", "groups": groups, "form": form, "protocol": protocol, "how": how}


def v2_enum(max_nodes):
    index = 0
    for ast in c07.enumerate_trees(V2_ENUM_OPERANDS, 1, max_nodes):
        for case in c07.expr_cases([ast], text_variants=[0, 1, 8, 21], list_variants=[0, 5, 32]):
            index += 1
            yield {"kind": "v2", "ast": ast, "v": case["v"], "form": case["form"],
                   "how": "current" if index % 4 == 0 else ("config" if index % 9 == 0 else "explicit")}


def v2_case_st():
    return st.builds(lambda a, v, f, h: {"kind": "v2", "ast": a, "v": v, "form": f, "how": h},
                     c07.ast_st(V2_OPERANDS, max_leaves=6), c07.VARIANT_ST, st.sampled_from(["text", "text", "list"]),
                     st.sampled_from(["explicit", "explicit", "current", "current", "config"]))


def _has_prefixed(ast):
    return any(o[1][0] in "-~" for o in tagref.operands(ast))


def mixed_enum(max_nodes):
    for ast in c07.enumerate_trees(MIXED_ENUM_OPERANDS, 2, max_nodes):
        if not _has_prefixed(ast):
            continue
        for v, form in ((0, "text"), (4, "text"), (16, "text"), (0, "list"), (16, "list")):
            if _is_mixed(c07.render(ast, v, form)):
                yield {"kind": "mixed", "ast": ast, "v": v, "form": form}


def mixed_case_st():
    prefixed = st.builds(lambda p, at, t: ["tag", p + at + t], st.sampled_from(["-", "~"]), st.sampled_from(["", "@"]),
                         st.sampled_from(V1_TAGS))
    plain = st.sampled_from(V2_OPERANDS)
    tree = c07.ast_st_from_leaf(st.one_of(plain, plain, prefixed), max_leaves=6)
    return st.builds(lambda a, v, f: {"kind": "mixed", "ast": a, "v": v, "form": f},
                     tree, st.sampled_from([0, 2, 4, 8, 12, 16, 20]), st.sampled_from(["text", "text", "list"])
                     ).filter(lambda c: c07.valid_ast(c["ast"]) and _has_prefixed(c["ast"])
                              and _is_mixed(c07.render(c["ast"], c["v"], c["form"])))


def explore(rec):
    quick = rec.tier == "quick"
    rec.enum("v1/formulas<=2-literals/all-decorations", v1_enum())
    rec.hyp("v1/random-cnf", v1_case_st(), 30000 if quick else 600000)
    rec.enum("v2-under-auto-detect/trees", v2_enum(5 if quick else 7))
    rec.hyp("v2-under-auto-detect/random", v2_case_st(), 10000 if quick else 300000)
    rec.enum("mixed/trees", mixed_enum(5 if quick else 6))
    rec.hyp("mixed/random", mixed_case_st(), 4000 if quick else 100000)
    rec.enum("command line/mixed expressions", itertools.islice(cli_enum(), 32 if quick else 400))


def required_labels(tier):
    return ["v1:list", "v1:list-blanks", "v1:string", "v1:string-blanks", "protocol:v1", "protocol:auto", "how:explicit", "how:current", "how:grown-list", "how:class-iter", "how:config-text",
            "how:config", "v1:groups=3", "v1:alternatives=3", "v1:minus", "v1:tilde", "v1:at", "v1:negated-at",
            "v1:limit", "v1:bare-tag-with-limit", "v1:keyword-substring-tag", "v1:operator-word-inside-tag", "v1:operator-word-at-end-of-tag", "v1:non-ascii-tag", "excluded:both-dialects",
            "v2-auto", "v2-auto:single-operand", "v2-auto:keyword-substring-tag", "wildcard", "form:list",
            "mixed", "mixed:and", "mixed:or", "mixed:not", "mixed:list", "mixed:tuple", "cli:mixed", "cli:via=ini",
            "cli:via=cmdline"]


def _f11_bare_tag_with_limit(case, detail, info):
    """F11: under auto-detection ONE bare positive tag with a ':N' limit suffix (no '@'/'-'/'~'
    prefix needed, no comma, no second word) is read as the v2 literal 'tag:N'."""
    if case.get("kind") != "v1" or case.get("protocol") != "auto":
        return False
    groups = case.get("groups") or []
    lits = [lit for group in groups for lit in group]
    return len(lits) == 1 and not lits[0].get("neg") and lits[0].get("lim") is not None


KNOWN_PREDICATES = {"single_bare_tag_with_limit_under_auto_detect": _f11_bare_tag_with_limit}


RULE = RULE + " " + ('Old-style arguments are also written with blanks around the comma inside one argument (--tags="@a, @b"); new-style list terms include the \'(a and b) or (c)\' rendering.')
RULE = RULE + " " + ('Lists of terms are also passed as tuples. A sample of mixed expressions goes through `python -m behave` '
                     '(command line and behave.ini): non-zero exit status, the error named, nothing executed, control run succeeds.')
