# -*- coding: utf-8 -*-
"""C05 -- Parser error discipline: only ParserError, with a usable line number."""
from __future__ import annotations

import logging

from hypothesis import strategies as st

from ..core import CaseResult
from ..driver import behave_origin
from ..program import render_feature
from . import c04

ID = "C05"
LEVEL = "fault_enumeration"
RULE = ("(A) line soups: 0-30 lines drawn from a pool of structural keyword lines in 6 languages, step lines, good and "
        "bad tag lines, table rows of varying width, doc-string fences, comments, '# language:' lines with known and unknown "
        "codes, junk and blanks; (B) every single-line delete / duplicate / swap / truncate / insert(pool) mutation of valid "
        "rendered documents (complete per document); (C) fault catalogue: second Feature / free text / Examples / second "
        "Background after steps, And/But without predecessor, table row with a wrong cell count, malformed tag token, "
        "doc-string or table before any step -- injected at EVERY position of a valid document where it is a fault, the "
        "injected line being recorded; all through parse_feature, parse_rule, parse_scenario, parse_steps, parse_tags. "
        "(D, thorough) coverage-guided fuzzing with atheris. Oracle: the call returns or raises ParserError with "
        "1 <= line <= number of lines; for (C) line == injected line. Non-trivial = the text makes the parser raise or "
        "reach a step.")
ASSUMPTIONS = [
    "termination is observed only through the absence of watchdog hits",
    "the language= argument is always a known language code (unknown codes appear only inside the text)",
]
SIMPLIFY = {}
WATCHDOG_S = {"quick": 900, "thorough": 4 * 3600}

ENTRIES = ["feature", "rule", "scenario", "steps", "tags"]

POOL = [
    u"Feature: f", u"Feature:", u"  Feature: again", u"Ability: x", u"Funktionalität: de", u"Fonctionnalité: fr",
    u"機能: ja", u"Rule: r", u"  Rule:", u"Background: b", u"  Background:", u"Grundlage:", u"Contexte:", u"背景:",
    u"Scenario: s", u"  Scenario:", u"Example: e", u"Szenario: de", u"Scénario: fr", u"シナリオ: ja",
    u"Scenario Outline: o <a>", u"  Scenario Template: t", u"Szenariogrundriss: g", u"Plan du scénario: p",
    u"Examples: ex", u"    Examples:", u"Scenarios:", u"Beispiele:", u"Exemples:", u"例:",
    u"Given a step", u"    When another <a>", u"Then x", u"And y", u"But z", u"* star", u"given lower", u"Angenommen de",
    u"Soit fr", u"前提ja", u"Wenn w", u"Dann d", u"Und u", u"Aber a", u"Quand q", u"Alors a", u"Et e", u"Mais m",
    u"@tag", u"  @a @b", u"@a bad", u"@ ", u"@", u"@a #comment", u"@a@b", u"not a tag @x",
    u"| a | b |", u"  | 1 | 2 |", u"| 1 |", u"| 1 | 2 | 3 |", u"|", u"||", u"| a | b", u"| x \\| y | z |", u"|  |",
    u'"""', u'  """', u"'''", u"      '''", u'""" trailing', u'"""x"""',
    u"# comment", u"#", u"# language: en", u"# language: de", u"#language:fr", u"# language: zz", u"# language:",
    u"  # language: ja", u"", u"   ", u"free text", u"= description", u"Given", u"Scenario", u"Feature", u":", u"\t",
    u"Scenario Outline:", u"Examples: | a |", u"Given a step:", u"When | pipe", u" ", u"x\x0by",
    # text that is harmful inside a message template (str.format / % formatting of user text)
    u"And {name} orphan {}", u"But {0} %s %(x)s }{", u"Und {é} %", u"Feature: {f} %d", u"free {text} %s", u"@t{a}g %s",
    u"| {a} | %s |", u"Examples: {e} %(n)s", u"Background: {b}", u"Given {x",
]
SPICES = [u"", u" {name}", u" {}", u" {0} %s", u" %(x)s %", u" }{", u" é{ü}", u" {0!r:>{1}}", u" {"]
SPICED_FAULTS = ("second-feature-after-steps", "free-text-after-steps", "second-background-after-steps",
                 "examples-outside-outline", "and-without-predecessor")


def call_entry(entry, text, language=None):
    from behave import parser
    if entry == "feature":
        return parser.parse_feature(text, language=language, filename="fuzz.feature")
    if entry == "rule":
        return parser.parse_rule(text, language=language, filename="fuzz.feature")
    if entry == "scenario":
        return parser.parse_scenario(text, language=language, filename="fuzz.feature")
    if entry == "steps":
        return parser.parse_steps(text, language=language, filename="fuzz.feature")
    if entry == "tags":
        return parser.parse_tags(text)
    if entry == "steps-with-reused-parser":
        # what context.execute_steps() does: the parser object that parsed the feature file parses a steps text
        feature = parser.parse_feature(REUSE_DOC, filename="fuzz.feature")
        return feature.parser.parse_steps(text)
    if entry == "file":
        # the file-level API the runner uses: line numbers are those of the file on disk
        import os
        import tempfile
        base = os.environ.get("VERIF_TMP") or tempfile.gettempdir()
        fd, path = tempfile.mkstemp(suffix=".feature", prefix="vf-c05-", dir=base)
        try:
            with os.fdopen(fd, "wb") as f:
                f.write(text.encode("utf-8"))
            return parser.parse_file(path)
        finally:
            os.unlink(path)
    raise ValueError(entry)


REUSE_DOC = u"Feature: f\n  Scenario: s\n    Given a step\n      | a |\n      | 1 |\n    When another step\n"


_LOGGER_SILENCED = []


def probe(res, entry, text, language=None, expect_line=None, fault=None):
    """Run one entry point on one text and apply the oracle.  Returns 'ok' | 'error' | 'bad'."""
    from behave.parser import ParserError
    if not _LOGGER_SILENCED:
        logging.getLogger("behave").setLevel(logging.CRITICAL)
        _LOGGER_SILENCED.append(True)
    nlines = len(text.splitlines())
    try:
        call_entry(entry, text, language)
    except ParserError as e:
        line = e.line
        if not isinstance(line, int) or isinstance(line, bool) or line < 1 or line > max(nlines, 1):
            res.fail("C05.line-range.%s" % entry,
                     "ParserError.line == %r for a text of %d lines: %r -> %s" % (line, nlines, text[:200], e),
                     entry=entry)
            return "bad"
        if expect_line is not None and line != expect_line:
            res.fail("C05.fault-line.%s" % fault,
                     "[%s] %s injected at line %d but the error is reported at line %d (%s): %r"
                     % (entry, fault, expect_line, line, str(e).replace("\n", " ")[:120], text[:400]),
                     entry=entry, fault=fault)
            return "bad"
        return "error"
    except RecursionError:
        raise
    except Exception as e:      # noqa: any other exception type is the violation
        origin = behave_origin(e.__traceback__) or "?"
        res.fail("C05.internal-error.%s.%s@%s" % (entry, type(e).__name__, origin.split("@")[0]),
                 "[%s] %s: %s (%s) for text %r" % (entry, type(e).__name__, str(e)[:120], origin, text[:300]),
                 entry=entry, exc=type(e).__name__, origin=origin)
        return "bad"
    if expect_line is not None:
        res.fail("C05.fault-accepted.%s" % fault, "[%s] %s injected at line %d was accepted: %r"
                 % (entry, fault, expect_line, text[:400]), entry=entry, fault=fault)
        return "bad"
    return "ok"


def check(case):
    res = CaseResult()
    kind = case["kind"]
    if kind == "text":
        text = case["text"]
        language = case.get("lang")
        outcomes = []
        for entry in case.get("entries") or ENTRIES:
            outcomes.append(probe(res, entry, text, language))
        res.evals = len(outcomes)
        res.nontrivial = ("error" in outcomes or "bad" in outcomes or _reaches_step(text))
        res.label(case.get("origin", "text"))
        if "error" in outcomes:
            res.label("raises-ParserError")
        if all(o == "ok" for o in outcomes):
            res.label("accepted-by-all")
    elif kind == "mutation":
        check_mutations(res, case)
    elif kind == "catalogue":
        check_catalogue(res, case)
    else:
        raise ValueError(kind)
    return res


def _reaches_step(text):
    for line in text.splitlines():
        s = line.strip()
        if s.startswith((u"Given ", u"When ", u"Then ", u"* ", u"And ", u"But ")):
            return True
    return False


# ---------------------------------------------------------------------------
# (B) single-line mutations of a valid document
# ---------------------------------------------------------------------------
def mutations(lines, insert_pool):
    n = len(lines)
    for i in range(n):
        yield "delete", lines[:i] + lines[i + 1:]
        yield "duplicate", lines[:i + 1] + lines[i:]
        if i + 1 < n:
            yield "swap", lines[:i] + [lines[i + 1], lines[i]] + lines[i + 2:]
        yield "truncate", lines[:i]
        yield "cut-line", lines[:i] + [lines[i][:len(lines[i]) // 2]] + lines[i + 1:]
    for i in range(n + 1):
        for extra in insert_pool:
            yield "insert", lines[:i] + [extra] + lines[i:]


def check_mutations(res, case):
    feat = case["feature"]
    text, _facts = render_feature(feat)
    lines = text.split(u"\n")
    if lines and lines[-1] == u"":
        lines.pop()
    pool = [POOL[i % len(POOL)] for i in case.get("inserts", [])]
    count = 0
    raised = 0
    only = case.get("only")
    for idx, (mkind, mlines) in enumerate(mutations(lines, pool)):
        if only is not None and idx != only:
            continue
        mtext = u"\n".join(mlines) + u"\n"
        before = len(res.violations)
        for entry in ("feature", "steps", "scenario", "rule"):
            out = probe(res, entry, mtext, feat.get("lang"))
            count += 1
            if out == "error":
                raised += 1
        if len(res.violations) > before and only is None:
            # record position for replay/shrinking and stop at the first failing mutant
            for v in res.violations[before:]:
                v.detail = "mutation #%d (%s): %s" % (idx, mkind, v.detail)
            break
    res.evals = max(1, count)
    res.nontrivial = raised > 0
    res.label("mutations")
    if len(lines) <= 25:
        res.label("mutations:complete-doc<=25")


# ---------------------------------------------------------------------------
# (C) fault catalogue
# ---------------------------------------------------------------------------
def step_end_lines(facts):
    """Yield (last line of a step incl. its table / doc-string, step fact, owner fact)."""
    def steps_of(owner):
        for s in owner.get("steps", []):
            end = s["line"]
            if s.get("table"):
                end = s["table"]["lines"][-1]
            elif s.get("text") is not None:
                end = s["text_line"] + len(s["text"].split(u"\n")) + 1
            yield end, s, owner
    if facts.get("background"):
        for x in steps_of(facts["background"]):
            yield x
    for item in facts["items"]:
        if item["kind"] == "rule":
            if item.get("background"):
                for x in steps_of(item["background"]):
                    yield x
            for sub in item["items"]:
                for x in steps_of(sub):
                    yield x
        else:
            for x in steps_of(item):
                yield x


def catalogue(feat, text, facts):
    """Yield (fault kind, 0-based insert index, line to insert, expected 1-based error line)."""
    lines = text.split(u"\n")
    from behave import i18n
    kws = i18n.languages[feat.get("lang") or "en"]
    feature_kw = kws["feature"][0]
    examples_kw = kws["examples"][0]
    background_kw = kws["background"][0]
    and_kw = [a for a in kws["and"] if not a.startswith(u"*")][0]
    but_kw = [a for a in kws["but"] if not a.startswith(u"*")][0]
    for end, step, owner in step_end_lines(facts):
        yield "second-feature-after-steps", end, u"%s: again" % feature_kw, end + 1
        yield "free-text-after-steps", end, u"  = free text after steps", end + 1
        # a line that is exactly a keyword WITHOUT its colon is free text as well (a truncated "Scenario: ..." line)
        bare_kind = ("scenario", "examples", "feature", "rule", "scenario_outline", "background")[end % 6]
        bare_alias = kws[bare_kind][(end // 6) % len(kws[bare_kind])]
        yield "bare-keyword-after-steps", end, u"  %s" % bare_alias, end + 1
        yield "second-background-after-steps", end, u"  %s: again" % background_kw, end + 1
        if owner["kind"] != "outline":
            yield "examples-outside-outline", end, u"    %s: stray" % examples_kw, end + 1
        if step.get("table"):
            ncols = len(step["table"]["headings"])
            for ln in step["table"]["lines"]:
                yield "table-row-cell-count", ln, u"      | " + u" | ".join([u"x"] * (ncols + 1)) + u" |", ln + 1
                # ... also when the closing pipe of the row with the wrong cell count is missing
                yield "table-row-cell-count", ln, u"      | " + u" | ".join([u"xyz"] * (ncols + 1)), ln + 1
    # examples tables
    for item in _iter_scen(facts):
        if item["kind"] == "outline":
            for ex in item["examples"]:
                if ex["headings"] is None:
                    continue        # an Examples section without a table has no row to spoil
                ncols = len(ex["headings"])
                for ln in [ex["heading_line"]] + ex["row_lines"]:
                    yield "table-row-cell-count", ln, u"      | " + u" | ".join([u"x"] * (ncols + 1)) + u" |", ln + 1
    # And/But without any preceding step: as first step of an element without inherited background steps
    fbg = facts.get("background")
    fbg_steps = bool(fbg and fbg["steps"])
    if fbg and not fbg["steps"]:
        pos = _after_header(fbg)
        yield "and-without-predecessor", pos, u"    %sorphan" % and_kw, pos + 1
    for item in facts["items"]:
        if item["kind"] == "rule":
            rbg = item.get("background")
            if rbg and not rbg["steps"] and not fbg_steps:
                pos = _after_header(rbg)
                yield "and-without-predecessor", pos, u"      %sorphan" % but_kw, pos + 1
            inherited = fbg_steps or bool(rbg and rbg["steps"])
            subs = item["items"]
        else:
            inherited = fbg_steps
            subs = [item]
        if not inherited:
            for sub in subs:
                if not sub["steps"]:
                    pos = _after_header(sub)
                    yield "and-without-predecessor", pos, u"      %sorphan" % and_kw, pos + 1
    # an Examples section directly below a Rule header (whatever stands in front of the rule -- e.g. an outline)
    for item in facts["items"]:
        if item["kind"] == "rule":
            pos = _after_header(item)
            yield "examples-outside-outline", pos, u"    %s: stray" % examples_kw, pos + 1
    # malformed tag token directly before an element (its first tag line or its keyword line)
    for item in [facts] + list(_iter_all(facts)):
        first = min([item["line"]] + [ln for _t, ln in item.get("tags", [])])
        yield "malformed-tag", first - 1, BAD_TAG_LINES[first % len(BAD_TAG_LINES)], first


# a token without '@' on a tag line -- on a short and on a LONG line (the line is echoed in the message), with and
# without a colon inside the token (a ticket reference, a truncated "Scenario: x")
BAD_TAG_LINES = [
    u"  @good bad @other",
    u"  @regression @customer_portal @account_settings @notification_preferences slow.running @nightly @wip",
    u"  @smoke issue:1234",
    u"  @t1 @t2 @t3 @t4 @t5 @t6 @t7 @t8 @t9 @t10 @t11 @t12 @t13 Scenario: forgot the line break @t14",
    u"  @" + u"x" * 130 + u" y",
]


def _after_header(fact):
    return fact["line"] + len(fact.get("description") or [])


def _iter_scen(facts):
    for item in facts["items"]:
        if item["kind"] == "rule":
            for sub in item["items"]:
                yield sub
        else:
            yield item


def _iter_all(facts):
    for item in facts["items"]:
        yield item
        if item["kind"] == "rule":
            for sub in item["items"]:
                yield sub
    for sc in _iter_scen(facts):
        if sc["kind"] == "outline":
            for ex in sc["examples"]:
                yield ex


def check_catalogue(res, case):
    feat = dict(case["feature"])
    feat.pop("noise", None)     # positions are computed on the plainly formatted document
    text, facts = render_feature(feat)
    lines = text.split(u"\n")
    if lines and lines[-1] == u"":
        lines.pop()
    # the valid document itself must be accepted
    if probe(res, "feature", text, feat.get("lang")) != "ok":
        return
    count = 0
    only = case.get("only")
    for idx, (fault, pos, new_line, expect) in enumerate(catalogue(feat, text, facts)):
        if only is not None and idx != only:
            continue
        if fault in SPICED_FAULTS:
            # user text ends up in error messages: braces / percent signs must not matter
            new_line = new_line + SPICES[(case.get("spice") or 0) % len(SPICES)]
        mlines = lines[:pos] + [new_line] + lines[pos:]
        eol = (u"\n", u"\n", u"\r\n", u"\r")[(idx + (case.get("spice") or 0)) % 4]      # any line terminator
        mtext = eol.join(mlines) + eol
        before = len(res.violations)
        probe(res, "feature", mtext, feat.get("lang"), expect_line=expect, fault=fault)
        count += 1
        if feat.get("lang") in (None, "en") and idx % 3 == (case.get("spice") or 0) % 3:
            # the same document as a file that starts with blank lines (legal): reported at its real line
            lead = 1 + (case.get("spice") or 0) % 2
            probe(res, "file", u"\n" * lead + mtext, None, expect_line=expect + lead, fault=fault)
            count += 1
            res.label("entry:file-with-leading-blank-lines")
        res.label("fault:" + fault)
        if len(res.violations) > before and only is None:
            for v in res.violations[before:]:
                v.detail = "catalogue #%d: %s" % (idx, v.detail)
    # the malformed tag lines through the parse_tags() entry point, alone and as the last of several tag lines
    for k, bad in enumerate(BAD_TAG_LINES):
        probe(res, "tags", bad + u"\n", None, expect_line=1, fault="malformed-tag")
        probe(res, "tags", u"@one @two\n\n" + bad.strip() + u"\n", None, expect_line=3, fault="malformed-tag")
        count += 2
    res.label("entry:tags:malformed-tag")
    # doc-string / table before any step (parse_steps entry, line 1)
    for fault, first in (("docstring-before-step", u'"""\ntext\n"""\n'), ("table-before-step", u"| a |\n| 1 |\n")):
        probe(res, "steps", first + u"Given a step\n", feat.get("lang"), expect_line=1, fault=fault)
        probe(res, "steps-with-reused-parser", first + u"Given a step\n", None, expect_line=1, fault=fault)
        res.label("fault:" + fault)
        count += 2
    res.evals = max(1, count)
    res.nontrivial = count > 2
    if (case.get("spice") or 0) % len(SPICES):
        res.label("fault-text:braces/percent")


# ---------------------------------------------------------------------------
EOLS = [u"\n", u"\n", u"\n", u"\r\n", u"\r"]


def soup_st(max_lines=30):
    return st.builds(lambda ls, eol: {"kind": "text", "origin": "soup", "text": eol.join(ls) + (eol if ls else u"")},
                     st.lists(st.sampled_from(POOL), min_size=0, max_size=max_lines), st.sampled_from(EOLS))


def structured_soup_st():
    """A soup that starts like a feature, so deeper parser states are reached more often."""
    head = st.sampled_from([[u"Feature: f"], [u"@t", u"Feature: f"], [u"# language: de", u"Funktionalität: f"],
                            [u"Feature: f", u"  Background:", u"    Given b"], [u"Feature: f", u"  Rule: r"]])
    body = st.lists(st.sampled_from(POOL), min_size=0, max_size=25)
    return st.tuples(head, body).map(lambda hb: {"kind": "text", "origin": "structured-soup",
                                                 "text": u"\n".join(hb[0] + hb[1]) + u"\n"})


def explore(rec):
    quick = rec.tier == "quick"
    # every pool line on its own and every ordered pair of pool lines (complete)
    rec.enum("pool-singles", [{"kind": "text", "origin": "pool-single", "text": ln + u"\n"} for ln in POOL])
    if not quick:
        rec.enum("pool-pairs", ({"kind": "text", "origin": "pool-pair", "text": a + u"\n" + b + u"\n"}
                                for a in POOL for b in POOL))
    rec.hyp("soups", soup_st(), 6000 if quick else 150000)
    rec.hyp("structured-soups", structured_soup_st(), 6000 if quick else 150000)
    rec.hyp("mutations", st.builds(lambda f, ins: {"kind": "mutation", "feature": f, "inserts": ins},
                                   c04.feature_st(), st.lists(st.integers(0, len(POOL) - 1), min_size=2, max_size=4)),
            120 if quick else 3000)
    rec.hyp("catalogue", st.builds(lambda f, sp: {"kind": "catalogue", "feature": f, "spice": sp},
                                   c04.feature_st(), st.integers(0, len(SPICES) - 1)),
            2000 if quick else 30000)
    if not quick:
        run_atheris(rec)


def run_atheris(rec):
    """Coverage-guided fuzzing (thorough tier); inputs that violate the oracle are recorded as text cases."""
    try:
        from . import c05_fuzz
    except Exception:       # atheris not installed: the campaign is skipped, not failed
        rec.labels["atheris:unavailable"] += 1
        return
    c05_fuzz.campaign(rec)


def required_labels(tier):
    faults = ["second-feature-after-steps", "free-text-after-steps", "second-background-after-steps",
              "examples-outside-outline", "table-row-cell-count", "and-without-predecessor", "malformed-tag",
              "docstring-before-step", "table-before-step", "bare-keyword-after-steps"]
    return ["soup", "structured-soup", "pool-single", "mutations", "raises-ParserError", "accepted-by-all",
            "fault-text:braces/percent", "entry:file-with-leading-blank-lines"] + \
           ["fault:" + f for f in faults]


def _site(prefix):
    def pred(case, detail, info):
        return True
    return pred


KNOWN_PREDICATES = {}


RULE = RULE + " " + ('Injected fault lines and soup lines also carry text that is harmful inside message templates (braces, percent signs, non-ASCII field names).')
RULE = RULE + " " + ('The fault catalogue also inserts a line that is exactly a keyword alias without its colon after steps, and a table row with the wrong cell count whose closing pipe is missing.')
