# -*- coding: utf-8 -*-
"""C18 -- Output capture isolates step output and always restores the real streams."""
from __future__ import annotations

import copy
import io
import logging
import sys

from hypothesis import strategies as st

from .. import gen, refmodel, runcheck
from ..core import CaseResult
from ..harness import run_program
from ..program import all_steps_of, normalize, scenario_instances, step_outcome

ID = "C18"
LEVEL = "exploration"
RULE = ("Scenarios whose steps and step hooks (before_step / after_step) write unique markers (scenario + step + kind) to "
        "stdout, stderr and logging (logger vf/other, level INFO/WARNING/ERROR); all outcome sequences up to length 3 over "
        "{pass, fail, raise, interrupt, undefined} x all 8 combinations of the three capture switches are enumerated for a "
        "two-scenario feature, longer random programs (1-4 scenarios, outlines, backgrounds, step-hook faults, nested "
        "execute_steps, logging level / filter variations) are drawn; run in-process with sentinel objects installed as the "
        "real sys.stdout / sys.stderr, plus a CLI sample reading the child's pipes. Oracle: no marker of a captured kind "
        "reaches a sentinel; a failing step's error_message contains every marker of its scenario emitted up to that step "
        "(enabled kinds, level / filter respected) and none of other scenarios; markers of passing scenarios do not show up in "
        "formatter output; at every formatter.result callback and scenario hook sys.stdout / sys.stderr ARE the sentinels (also "
        "after failing, raising and interrupting steps); root logger level and foreign handlers are the same before a scenario "
        "and after its teardown; with a switch off the markers arrive at the sentinel in emission order. Non-trivial = >= 2 "
        "scenarios and a failing step that is not in first position.")
ASSUMPTIONS = [
    "writes that bypass sys.stdout / sys.stderr (os.write, C extensions) are outside what the sentinels observe",
    "with log capture off a record goes the way standard logging sends it (lastResort handler -> current sys.stderr, "
    "WARNING and above); only such records are emitted in that configuration",
    "behave's own LoggingCapture handler is excluded from the handler comparison",
]
SIMPLIFY = {"o": lambda v: "pass" if not v.startswith("<") else None, "bg": "nullable"}
WATCHDOG_S = {"quick": 900, "thorough": 4 * 3600}

KINDS = ("stdout", "stderr", "log")
LEVELS = {"DEBUG": logging.DEBUG, "INFO": logging.INFO, "WARNING": logging.WARNING, "ERROR": logging.ERROR}


class Sentinel(io.StringIO):
    pass


def marker(kind, scen, uid, where="s"):
    return u"[%s%s|%s|%s]" % (where, {"stdout": "o", "stderr": "e", "log": "l"}[kind], scen, uid)


def prepare(prog, case):
    """Attach emit instructions to every step (markers with the scenario placeholder)."""
    # sub-steps of nested steps get program-wide unique ids
    counter = 0
    for f in prog["features"]:
        for it in f["items"]:
            subs = it["items"] if it["k"] == "r" else [it]
            for sub in subs:
                for s in sub["steps"]:
                    for nested in s.get("sub") or []:
                        nested["uid"] = "n%d" % counter
                        counter += 1
    lv = case.get("levels") or ["WARNING"]
    lg = case.get("loggers") or ["vf"]
    k = 0
    for f in prog["features"]:
        lists = []
        if f.get("bg"):
            lists.append(f["bg"])
        for it in f["items"]:
            subs = it["items"] if it["k"] == "r" else [it]
            if it["k"] == "r" and it.get("bg"):
                lists.append(it["bg"])
            for sub in subs:
                lists.append(sub["steps"])
        for steps in lists:
            for s in steps:
                level = lv[k % len(lv)]
                logger = lg[k % len(lg)]
                k += 1
                s["emit"] = {"stdout": marker("stdout", "{S}", s["uid"]), "stderr": marker("stderr", "{S}", s["uid"]),
                             "log": marker("log", "{S}", s["uid"]), "level": LEVELS[level], "logger": logger,
                             "_level": level}
                if case.get("flood") and k == 1:
                    s["emit"]["flood"] = int(case["flood"])     # the first step logs very many records
    if case.get("relevel"):
        plain = [it for it in prog["features"][0]["items"] if it["k"] == "s" and it["steps"]
                 and not it["steps"][-1]["o"].startswith("<")]
        if plain:
            index, level = case["relevel"]
            plain[int(index) % len(plain)]["steps"][-1]["emit"]["relevel"] = level


def log_captured(cfg, level_name, logger):
    """Is a record captured by behave's log capture under this configuration?"""
    # the documented before_all idiom `context.config.setup_logging(level=...)` re-assigns
    # config.logging_level "NEEDED FOR: behave.log_capture.LoggingCapture" (configuration.py)
    level = LEVELS[cfg.get("setup_level") or cfg.get("logging_level") or "INFO"]
    if LEVELS[level_name] < level:
        return False
    flt = cfg.get("logging_filter")
    if flt:
        if flt.startswith("-"):
            return logger != flt[1:]
        return logger == flt
    return True


def check(case):
    res = CaseResult()
    if case.get("kind") == "cli":
        return check_cli(res, case)
    prog = copy.deepcopy(case["program"])
    normalize(prog)
    prog = runcheck.resolve_faults(prog)
    prepare(prog, case)
    cfg = prog.setdefault("cfg", {})
    cap = {"stdout": cfg.get("capture_stdout") is not False, "stderr": cfg.get("capture_stderr") is not False,
           "log": cfg.get("capture_log") is not False}
    hook_emit = bool(case.get("hook_emit"))
    extra = []
    if cfg.get("logging_level"):
        extra.append("--logging-level=%s" % cfg["logging_level"])
    if cfg.get("logging_filter"):
        extra.append("--logging-filter=%s" % cfg["logging_filter"])
    from ..harness import make_config
    config = make_config(cfg, extra_args=extra)
    if cfg.get("continue_after_failed"):
        res.label("continue-after-failed-step")
    if case.get("relevel") and cap["log"]:
        res.label("step-changes-root-logger-level")
    if case.get("store_all"):
        config.junit = True     # every scenario keeps its captured output for the reporters
    if case.get("capture_hooks"):
        # feature / rule / scenario / step / tag hooks wrapped with the documented behave.log_capture.capture
        # decorator (the hooks themselves log nothing then): the scenario's own capture must be untouched
        prog["capture_hooks"] = case["capture_hooks"]
    setup_level = case.get("setup_level") if cap["log"] else None
    if setup_level:
        cfg["setup_level"] = setup_level
    sent_out, sent_err = Sentinel(), Sentinel()
    identity = []       # (where, ident, stdout ok, stderr ok)
    logstate = []       # (hook name, ident, level, foreign handler ids)
    emitted = []        # emission log: (scenario, uid, where, kind) in order
    from behave.log_capture import LoggingCapture

    def observer(kind, name, context, arg):
        if kind != "hook":
            return
        if name == "before_all" and setup_level:
            context.config.setup_logging(level=LEVELS[setup_level])
        if name in ("before_step", "after_step"):
            if hook_emit:
                scen = context.scenario.name
                uid = name_uid(arg.name)
                where = "b" if name == "before_step" else "a"
                sys.stdout.write(marker("stdout", scen, uid, where))
                sys.stderr.write(marker("stderr", scen, uid, where))
                if not case.get("capture_hooks"):
                    logging.getLogger("vf").warning(marker("log", scen, uid, where))
            return
        if name in ("before_scenario", "after_scenario", "after_feature", "before_feature"):
            root = logging.getLogger()
            foreign = [id(h) for h in root.handlers if not isinstance(h, LoggingCapture)]
            logstate.append((name, getattr(arg, "name", None), root.level, foreign))
        if name in ("before_scenario", "after_scenario"):
            identity.append((name, getattr(arg, "name", None), sys.stdout is sent_out, sys.stderr is sent_err))

    from behave.formatter.base import Formatter, StreamOpener
    from behave.formatter.plain import PlainFormatter
    plain_stream = io.StringIO()

    class Probe(Formatter):
        name = "vf.probe"

        def result(self, step):
            identity.append(("result", step.name, sys.stdout is sent_out, sys.stderr is sent_err))

    def formatters(cfg_obj):
        return [PlainFormatter(StreamOpener(stream=plain_stream), cfg_obj),
                Probe(StreamOpener(stream=io.StringIO()), cfg_obj)]

    old_out, old_err = sys.stdout, sys.stderr
    sys.stdout, sys.stderr = sent_out, sent_err
    try:
        run = run_program(prog, config=config, formatters=formatters, observers=[observer], keep_stdout=True)
        after_out, after_err = run.stdout_after, run.stderr_after
    finally:
        sys.stdout, sys.stderr = old_out, old_err
    if run.escaped is not None:
        res.fail("C18.escape", "exception escaped run(): %r" % (run.escaped,))
        return res
    ref = refmodel.simulate(prog)
    # -- streams are the originals again, at every observation point and at the end
    if after_out is not sent_out or after_err is not sent_err:
        res.fail("C18.streams-not-restored.end", "after run(): sys.stdout restored=%s sys.stderr restored=%s"
                 % (after_out is sent_out, after_err is sent_err))
    for where, ident, ok_out, ok_err in identity:
        if not (ok_out and ok_err):
            res.fail("C18.streams-not-restored", "at %s(%s): sys.stdout is original=%s, sys.stderr is original=%s"
                     % (where, ident, ok_out, ok_err))
            break
    # -- logging state: same at before_scenario(n) and at the next observation after its teardown
    for i, (name, ident, level, foreign) in enumerate(logstate):
        if name != "before_scenario":
            continue
        for name2, ident2, level2, foreign2 in logstate[i + 1:]:
            if name2 in ("before_scenario", "after_feature"):
                if level2 != level or foreign2 != foreign:
                    res.fail("C18.logging-state", "root logger before scenario %r: level %s handlers %d; after its teardown "
                             "(at %s %r): level %s handlers %d" % (ident, level, len(foreign), name2, ident2, level2,
                                                                 len(foreign2)))
                break
    # -- expected emissions per scenario
    out_text, err_text = sent_out.getvalue(), sent_err.getvalue()
    plain_text = plain_stream.getvalue()
    by_name = runcheck.model_scenario_map(run.features)
    insts = runcheck.instances(prog)
    seq = {"stdout": [], "stderr": []}
    failing_not_first = False
    for feat, inst in insts:
        name = inst["name"]
        if name not in ref.selected or (cfg.get("dry_run")):
            continue
        steps = all_steps_of(feat, inst)
        statuses = ref.steps.get(name) or []
        proc = ref.processed.get(name) or []
        sofar = []      # markers emitted in this scenario so far: (kind, text, level, logger)
        hook_kinds = KINDS if not case.get("capture_hooks") else ("stdout", "stderr")
        for idx, (s, status, p) in enumerate(zip(steps, statuses, proc)):
            if not p or status == "undefined":
                continue
            outcome = step_outcome(s, inst["rowdict"])
            called = status != "hook_error" or outcome != "pass"    # refined below
            called = (name, s["uid"]) in set(map(tuple, run.calls))
            events = []
            if hook_emit:
                events += [(k, marker(k, name, s["uid"], "b"), "WARNING", "vf") for k in hook_kinds]
            if called and outcome != "convert":
                lvl = s["emit"]["_level"]
                events += [(k, marker(k, name, s["uid"]), lvl, s["emit"]["logger"]) for k in KINDS]
                events += [("log", marker("log", name, s["uid"]) + "#%d;" % i, lvl, s["emit"]["logger"])
                           for i in range(int(s["emit"].get("flood") or 0))]
            if called and outcome == "nest" and hook_emit:
                # execute_steps(): the step hooks of the sub-steps run (and emit) as well
                hooked = set((h, ident) for h, ident, _open in ref.hooks)
                for sub in s["sub"]:
                    # which sub-step hooks run is decided by the reference model (a fault in a
                    # sub-step hook ends the nested execution)
                    if ("before_step", sub["uid"]) in hooked:
                        events += [(k, marker(k, name, sub["uid"], "b"), "WARNING", "vf") for k in hook_kinds]
                    if ("after_step", sub["uid"]) in hooked:
                        events += [(k, marker(k, name, sub["uid"], "a"), "WARNING", "vf") for k in hook_kinds]
            post = []
            if hook_emit:
                post = [(k, marker(k, name, s["uid"], "a"), "WARNING", "vf") for k in hook_kinds]
            sofar += events
            # destinations
            for k, text, lvl, logger in events + post:
                dest = destination(k, lvl, logger, cap, cfg)
                if dest in ("stdout", "stderr"):
                    seq[dest].append(text)
            if status in ("failed", "error", "hook_error"):
                if idx > 0:
                    failing_not_first = True
                if cfg.get("continue_after_failed") and any(x in ("failed", "error") for x in statuses[:idx]):
                    res.label("continue-after-failed-step:second-failure")
                objs = by_name.get(name) or []
                if len(objs) == 1:
                    mstep = list(objs[0].all_steps)[idx]
                    msg = mstep.error_message or u""
                    for k, text, lvl, logger in sofar:
                        dest = destination(k, lvl, logger, cap, cfg)
                        if dest == "captured" and text not in msg:
                            res.fail("C18.report.missing", "failing step %s of %r: its report lacks %s (%s); report: %r"
                                     % (s["uid"], name, text, k, msg[-400:]))
                            break
                    other = [n for n in ref.selected if n != name]
                    for on in other:
                        if (u"|%s|" % on) in msg:
                            res.fail("C18.report.foreign", "failing step %s of %r: its report contains output of scenario %r: %r"
                                     % (s["uid"], name, on, msg[-400:]))
                            break
            sofar += post
        # passing scenario: markers must not be shown by the formatter
        objs = by_name.get(name) or []
        if len(objs) == 1 and objs[0].status.name == "passed":
            for k, text, lvl, logger in sofar:
                if destination(k, lvl, logger, cap, cfg) == "captured" and (text in plain_text or text in out_text
                                                                              or text in err_text):
                    res.fail("C18.passing-output-shown", "output %s of passing scenario %r is shown" % (text, name))
                    break
        # what is stored with the scenario for the reporters is this scenario's output only
        if len(objs) == 1:
            stored = getattr(objs[0], "captured", None)
            text_stored = u""
            try:
                text_stored = u"\n".join(x for x in (stored.stdout, stored.stderr, stored.log_output) if x) \
                    if stored is not None else u""
            except AttributeError:
                text_stored = u""
            if case.get("store_all") or objs[0].status.name == "failed":
                # ... and ALL of it: what was captured in the scenario is kept with it (failed scenarios always,
                # every scenario when a reporter such as junit asks for it)
                for k, text, lvl, logger in sofar:
                    if destination(k, lvl, logger, cap, cfg) == "captured" and text not in text_stored:
                        res.fail("C18.stored.missing", "the output stored with scenario %r (status %s) lacks %s (%s): %r"
                                 % (name, objs[0].status.name, text, k, text_stored[-300:]))
                        break
                else:
                    if sofar:
                        res.label("stored:complete")
            for on in ref.selected:
                if on != name and (u"|%s|" % on) in text_stored:
                    res.fail("C18.stored.foreign", "the output stored with scenario %r (status %s) contains output of "
                             "scenario %r: %r" % (name, objs[0].status.name, on, text_stored[-300:]))
                    break
    # -- captured kinds never reach the sentinels; uncaptured ones arrive in order
    for dest, text_all in (("stdout", out_text), ("stderr", err_text)):
        got = extract_markers(text_all)
        want = seq[dest]
        if got != want:
            extra_m = [m for m in got if m not in want]
            missing = [m for m in want if m not in got]
            if extra_m:
                res.fail("C18.leak.%s" % dest, "markers reached the real %s although their kind is captured: %s"
                         % (dest, extra_m[:4]))
            elif missing:
                res.fail("C18.passthrough.%s" % dest, "markers of an uncaptured kind did not reach the real %s: %s"
                         % (dest, missing[:4]))
            else:
                res.fail("C18.passthrough.order.%s" % dest, "markers at the real %s in order %s, emitted %s"
                         % (dest, got[:6], want[:6]))
    res.label("capture:%d%d%d" % (cap["stdout"], cap["stderr"], cap["log"]))
    if hook_emit:
        res.label("hook-emit")
    if failing_not_first:
        res.label("failing-not-first")
    if prog.get("hook_faults"):
        res.label("step-hook-fault")
    if cfg.get("logging_level") or cfg.get("logging_filter"):
        res.label("logging-level/filter")
    if setup_level:
        res.label("setup_logging-in-before_all")
    if case.get("capture_hooks"):
        res.label("@capture-decorated-hooks")
    if case.get("flood"):
        res.label("log-flood>=999")
    if any(o == "interrupt" for f, i in insts for o in [step_outcome(s, i["rowdict"]) for s in all_steps_of(f, i)]):
        res.label("interrupt")
    if any(s.get("o") == "nest" for f in prog["features"] for it in f["items"] if it["k"] == "s" for s in it["steps"]):
        res.label("nested-steps")
    res.nontrivial = len(ref.selected) >= 2 and failing_not_first
    return res


def destination(kind, level_name, logger, cap, cfg):
    """Where a marker must end up: 'captured', 'stdout', 'stderr' (real stream) or 'dropped'."""
    if kind == "stdout":
        return "captured" if cap["stdout"] else "stdout"
    if kind == "stderr":
        return "captured" if cap["stderr"] else "stderr"
    if cap["log"]:
        return "captured" if log_captured(cfg, level_name, logger) else "dropped"
    # standard logging without handlers: lastResort -> current sys.stderr (WARNING and above)
    if LEVELS[level_name] < logging.WARNING:
        return "dropped"
    return "captured" if cap["stderr"] else "stderr"


def extract_markers(text):
    import re
    return re.findall(r"\[[sba][oel]\|[^|\]]*\|[^\]]*\]", text)


def name_uid(step_name):
    from ..harness import _uid_of
    return _uid_of(step_name)


def check_cli(res, case):
    """Child process: what arrives at the real file descriptors."""
    from .. import disk
    prog = copy.deepcopy(case["program"])
    normalize(prog)
    prepare(prog, case)
    cfg = prog.setdefault("cfg", {})
    cap = {"stdout": cfg.get("capture_stdout") is not False, "stderr": cfg.get("capture_stderr") is not False,
           "log": cfg.get("capture_log") is not False}
    if case.get("no_before_all") and not prog.get("hook_faults"):
        prog["no_before_all"] = True
    extra_args = ["-f", "plain", "--no-timings"]
    if case.get("clear_handlers"):
        # --logging-clear-handlers concerns the handlers that are in the way of the log CAPTURE; with the capture off
        # the records still pass through to the handler that the logging setup installed
        extra_args.append("--logging-clear-handlers")
        res.label("cli:logging-clear-handlers" + (":log-capture-off" if not cap["log"] else ""))
    out = disk.run_cli(prog, extra_args=extra_args)
    if out.returncode not in (0, 1):
        res.fail("C18.cli.exit", "exit code %r: %s" % (out.returncode, out.stderr[-300:]))
        return res
    ref = refmodel.simulate(prog)
    by_status = {}
    for feat, inst in runcheck.instances(prog):
        name = inst["name"]
        sts = ref.steps.get(name) or []
        failed = any(s in ("failed", "error", "hook_error", "undefined", "pending") for s in sts)
        by_status[name] = failed
    for m in extract_markers(out.stdout) + extract_markers(out.stderr):
        kind = {"o": "stdout", "e": "stderr", "l": "log"}[m[2]]
        scen = m.split("|")[1]
        if cap[kind] and not by_status.get(scen, True) and kind != "log":
            res.fail("C18.cli.passing-output-shown", "marker %s of passing scenario %r reached the child's output" % (m, scen))
            break
    if not cap["stdout"]:
        want = [m for m in extract_markers(out.stdout) if m[2] == "o"]
        if not want and ref.calls:
            res.fail("C18.cli.passthrough", "stdout capture is off but no stdout marker reached the child's stdout")
    if prog.get("no_before_all") and not cap["log"]:
        # an environment file without before_all: behave's default before_all sets up logging (config.logging_level,
        # default INFO), so with log capture off every record from INFO upwards passes through to stderr
        level = LEVELS[cfg.get("logging_level") or "INFO"]
        emitted = {}
        for feat, inst in runcheck.instances(prog):
            for s in all_steps_of(feat, inst):
                if s.get("emit"):
                    emitted[(inst["name"], s["uid"])] = s["emit"]
        seen = set(extract_markers(out.stderr)) | set(extract_markers(out.stdout))
        for scen, uid in map(tuple, out.log["calls"] if out.log else []):
            em = emitted.get((scen, uid))
            if em and em["level"] >= level and em.get("logger") in (None, "vf", "other"):
                text = em["log"].replace("{S}", scen)
                if text not in seen:
                    res.fail("C18.cli.log-passthrough", "log capture is off and the environment has no before_all hook, but "
                             "the %s record %s of step %s did not reach the child's output"
                             % (em["_level"], text, uid))
                    break
        res.label("cli:default-before_all")
    res.label("cli")
    res.nontrivial = len(ref.selected) >= 2
    return res


# ---------------------------------------------------------------------------
def cap_cfg(bits):
    return {"capture_stdout": bool(bits & 1), "capture_stderr": bool(bits & 2), "capture_log": bool(bits & 4)}


def enumeration():
    import itertools
    outs = ["pass", "fail", "raise", "interrupt", "undefined"]
    for bits in range(8):
        for n in (1, 2, 3):
            for seq_ in itertools.product(outs, repeat=n):
                prog = {"features": [{"tags": [], "items": [
                    {"k": "s", "tags": [], "steps": [{"kw": "Given", "o": o} for o in seq_]},
                    {"k": "s", "tags": [], "steps": [{"kw": "Given", "o": "pass"}, {"kw": "When", "o": "fail"}]}]}],
                    "cfg": cap_cfg(bits)}
                yield {"program": prog, "hook_emit": (bits + n) % 2 == 0}


@st.composite
def random_case(draw):
    prog = draw(gen.program_st(max_features=1, max_items=4, min_items=1, faults=False,
                               big_dims=[d for d in gen.BIG_DIMS if d != "features"],      # one feature file per case
                               outcomes=["pass", "pass", "fail", "raise", "interrupt", "undefined", "pending", "convert"],
                               cfg=st.just({})))
    bits = draw(st.integers(0, 7))
    prog["cfg"] = cap_cfg(bits)
    case = {"program": prog, "hook_emit": draw(st.booleans())}
    if prog["cfg"]["capture_log"] and draw(st.integers(0, 2)) == 0:
        prog["cfg"]["logging_level"] = draw(st.sampled_from(["INFO", "WARNING", "ERROR"]))
        if draw(st.booleans()):
            prog["cfg"]["logging_filter"] = draw(st.sampled_from(["vf", "-vf", "other"]))
        case["levels"] = draw(st.lists(st.sampled_from(["DEBUG", "INFO", "WARNING", "ERROR"]), min_size=1, max_size=3))
        case["loggers"] = draw(st.lists(st.sampled_from(["vf", "other"]), min_size=1, max_size=2))
        if draw(st.booleans()):
            case["setup_level"] = draw(st.sampled_from(["DEBUG", "INFO", "WARNING", "ERROR"]))
    elif not prog["cfg"]["capture_log"]:
        case["levels"] = draw(st.lists(st.sampled_from(["WARNING", "ERROR"]), min_size=1, max_size=2))
    if draw(st.integers(0, 3)) == 0:
        case["capture_hooks"] = draw(st.sampled_from(["plain", "error"]))
    if draw(st.integers(0, 2)) == 0:
        case["store_all"] = True
    if prog["cfg"]["capture_log"] and draw(st.integers(0, 7)) == 0:
        case["flood"] = draw(st.sampled_from([999, 1000, 1001, 1500, 2100]))
    # the last step of one scenario changes the root logger's level (more verbose) and does not put it back
    if prog["cfg"]["capture_log"] and draw(st.integers(0, 3)) == 0:
        plain = [it for it in prog["features"][0]["items"] if it["k"] == "s" and it["steps"]
                 and not it["steps"][-1]["o"].startswith("<")]
        if plain:
            case["relevel"] = [draw(st.integers(0, len(plain) - 1)), "DEBUG"]
    # the documented switch Scenario.continue_after_failed_step: later failing steps report all output so far
    from ..harness import _all_step_lists
    outs = set(s["o"] for lst in _all_step_lists(prog["features"][0]) for s in lst)     # backgrounds included
    if outs <= set(["pass", "fail", "raise", "convert"]) and draw(st.integers(0, 2)) == 0:
        prog["cfg"]["continue_after_failed"] = True
    # step-hook faults
    if draw(st.integers(0, 4)) == 0:
        prog["hook_faults"] = [[draw(st.integers(0, 10000)), draw(st.sampled_from(["Exception", "AssertionError"]))]]
    # nested steps
    for it in prog["features"][0]["items"]:
        if it["k"] == "s":
            for s in it["steps"]:
                if s["o"] == "pass" and not s.get("a") and draw(st.integers(0, 5)) == 0:
                    s["o"] = "nest"
                    s["sub"] = [{"uid": "n" + s.get("uid", "x") + str(j), "o": draw(st.sampled_from(["pass", "fail"]))}
                                for j in range(draw(st.integers(1, 2)))]
    return case


def explore(rec):
    quick = rec.tier == "quick"
    rec.enum("sequences<=3 x 8 capture combinations", enumeration())
    rec.hyp("random-programs", random_case(), 10000 if quick else 200000)
    def cli_case(c, nb, ch):
        c = dict(c, kind="cli", no_before_all=nb)
        if ch:
            c["clear_handlers"] = True
            if nb:
                c["program"]["cfg"]["capture_log"] = False
        if nb and c["program"]["cfg"].get("capture_log") is False:
            c["levels"] = ["INFO", "WARNING", "ERROR"]
        return c
    rec.hyp("cli", st.builds(cli_case, random_case(), st.booleans(), st.sampled_from([False, False, True])),
            96 if quick else 800)


def required_labels(tier):
    return ["stored:complete"] + ["capture:%d%d%d" % (a, b, c) for a in (0, 1) for b in (0, 1) for c in (0, 1)] + \
           ["hook-emit", "failing-not-first", "step-hook-fault", "logging-level/filter", "setup_logging-in-before_all", "@capture-decorated-hooks", "log-flood>=999", "interrupt", "nested-steps", "cli", "cli:default-before_all", "cli:logging-clear-handlers:log-capture-off",
            "step-changes-root-logger-level", "continue-after-failed-step:second-failure"]


KNOWN_PREDICATES = {}


RULE = RULE + " " + ('The logging level may be re-configured in before_all with context.config.setup_logging(level=...) (DEBUG..ERROR records).')
RULE = RULE + " " + ('In a quarter of the log-capturing cases the last step of one scenario sets the root logger to DEBUG and does not put it back: the level observed after the scenario is the one before it.')
RULE = RULE + " " + ('A third of the cases with pass/fail/raise/convert outcomes only switch Scenario.continue_after_failed_step on: the report of every later failing step still holds all output of the scenario so far.')
