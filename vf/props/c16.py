# -*- coding: utf-8 -*-
"""C16 -- JUnit reports are well-formed XML with counters that match their test cases."""
from __future__ import annotations

import glob
import os
import xml.dom.minidom
import xml.parsers.expat

from hypothesis import strategies as st

from .. import disk, gen, runcheck
from ..core import CaseResult
from ..program import normalize

ID = "C16"
LEVEL = "exploration"
RULE = ("Runs of generated programs (rules, outlines, deselection, failing / erroring / undefined / pending steps, hook "
        "faults, raising cleanups, --stop, dry-run) through the real Runner with --junit on a scratch project; feature, "
        "scenario and step names, assertion / exception messages and captured stdout / stderr are drawn from a hostile "
        "alphabet (& < > \" ', ']]>', C0/C1 control characters that do not split lines, DEL, non-characters, astral "
        "characters, ANSI escape sequences); show_skipped on/off and behave.reporter.junit.* userdata switches drawn. Oracle: "
        "every TESTS-*.xml parses with expat; its testcases are the feature's scenarios (rows included, skipped ones iff "
        "shown) in order with status == final status; tests / failures / errors / skipped == number of testcase / <failure> "
        "/ <error> / <skipped> entries; every failed or errored scenario has a failure / error entry that names the "
        "responsible step or hook; the reporter never raises. Non-trivial = a hostile character in some field and at least "
        "one failing scenario.")
ASSUMPTIONS = [
    "names are compared literally only when they consist of characters that are legal in XML 1.0 (others may be replaced)",
    "hostile text never contains characters on which str.splitlines() breaks when it is part of the feature file",
]
SIMPLIFY = {"o": lambda v: "pass" if not v.startswith("<") else None, "tagx": "nullable", "bg": "nullable",
            "tail": "nullable", "emit": "nullable"}
WATCHDOG_S = {"quick": 900, "thorough": 4 * 3600}

HOSTILE = [u"&", u"<", u">", u"\"", u"'", u"]]>", u"<![CDATA[", u"&amp;", u"\x01", u"\x08", u"\x1b[31mred\x1b[0m",
           u"\x7f", u"\x80", u"\x9f", u"￾", u"\U0001F600", u"\U0001FFFE", u"ü", u" ", u"\t", u"--", u"<?xml",
           u"\x0e", u"\x1b", u"\\x00", u"%s", u"{0}", u"]]\x1b[0m>", u"]\x1b[1m]>", u"]]\x01>"]
PLAIN = [u"alpha", u"beta", u"x", u"1"]
ERROR_CLASS = {"error", "hook_error", "undefined", "pending", "cleanup_error"}


def hostile_token():
    """A token with a hostile character in the middle (never leading/trailing whitespace)."""
    return st.builds(lambda a, h, b: a + h + b, st.sampled_from(PLAIN), st.sampled_from(HOSTILE), st.sampled_from(PLAIN))


def hostile_text(max_tokens=3, p_hostile=0.5):
    tok = st.one_of(st.sampled_from(PLAIN), hostile_token()) if p_hostile >= 0.5 else \
        st.one_of(st.sampled_from(PLAIN), st.sampled_from(PLAIN), hostile_token())
    return st.lists(tok, min_size=1, max_size=max_tokens).map(u" ".join)


def free_text():
    """Text that never goes through the feature file: may contain line breaks."""
    return st.lists(st.one_of(st.sampled_from(PLAIN), hostile_token(), st.just(u"\n"), st.just(u"\r\n"),
                              st.just(u"\x0c"), st.just(u" ")), min_size=1, max_size=5).map(u" ".join)


def long_text():
    """Some kilobytes of output (a stack dump, a generated document) full of CDATA terminators, at every alignment."""
    return st.builds(lambda pad, pat, k: u"." * pad + pat * k, st.integers(0, 4),
                     st.sampled_from([u"]]>", u"x]]>", u"ab]]>", u"]]>\n", u"\x1b[0m]]>"]), st.sampled_from([300, 420, 700, 1400]))


def emitted_text():
    return st.one_of(free_text(), free_text(), free_text(), free_text(), free_text(), free_text(), long_text())


def valid_xml_text(text):
    for ch in text:
        o = ord(ch)
        ok = o in (0x9, 0xA, 0xD) or 0x20 <= o <= 0xD7FF or 0xE000 <= o <= 0xFFFD or 0x10000 <= o <= 0x10FFFF
        if not ok or 0x7F <= o <= 0x84 or 0x86 <= o <= 0x9F or (o & 0xFFFE) == 0xFFFE:
            return False
    return True


def check_cli(case):
    """Child process under a non-UTF-8 locale (LC_ALL=C): the reports are well-formed whatever the locale of the
    process, and carry the (non-ASCII) scenario names."""
    res = CaseResult()
    prog = runcheck.resolve_faults(case["program"])
    normalize(prog)
    env = {"LC_ALL": "C", "LANG": "C", "PYTHONUTF8": "0", "PYTHONCOERCECLOCALE": "0", "PYTHONIOENCODING": "utf-8"}
    out = disk.run_cli(prog, extra_args=["--junit", "--junit-directory", "reports", "-f", "null"], paths=["features"],
                       keep=True, env_extra=env)
    try:
        if out.returncode not in (0, 1):
            res.fail("C16.cli.exit", "behave --junit under LC_ALL=C ended with exit code %r: %s"
                     % (out.returncode, out.stderr[-400:]))
            return res
        files = sorted(glob.glob(os.path.join(out.project.root, "reports", "TESTS-*.xml")))
        names = []
        for path in files:
            try:
                dom = xml.dom.minidom.parse(path)
            except xml.parsers.expat.ExpatError as e:
                res.fail("C16.cli.not-well-formed", "%s written under LC_ALL=C is not well-formed XML: %s (%d bytes)"
                         % (os.path.basename(path), e, os.path.getsize(path)))
                return res
            names += [n.getAttribute("name") for n in dom.getElementsByTagName("testcase")]
        want = [i["name"] for _f, i in runcheck.instances(prog) if valid_xml_text(i["name"])]
        missing = [n for n in want if n not in names]
        show_skipped = (prog.get("cfg") or {}).get("show_skipped") is not False
        if missing and show_skipped and not (prog.get("cfg") or {}).get("stop"):
            res.fail("C16.cli.testcase-name", "scenarios %r have no testcase of that name in the reports (%r)"
                     % (missing[:3], names[:6]))
        res.label("cli:LC_ALL=C")
        if any(ord(ch) > 127 for n in want for ch in n):
            res.label("cli:non-ascii-names")
            res.nontrivial = True
    finally:
        out.project.close()
    return res


def check(case):
    if case.get("kind") == "cli":
        return check_cli(case)
    res = CaseResult()
    prog = runcheck.resolve_faults(case["program"])
    normalize(prog)
    layout = case.get("layout") or {}
    subdirs = dict((int(k), v) for k, v in (layout.get("subdirs") or {}).items())
    names = dict((int(k), v) for k, v in (layout.get("names") or {}).items())
    proj = disk.Project(prog, subdirs=subdirs, names=names)
    try:
        argv = disk.cli_args(prog.get("cfg") or {}) + ["--junit", "--junit-directory", "reports"]
        for name, value in (case.get("userdata") or {}).items():
            argv += ["-D", "behave.reporter.junit.%s=%s" % (name, "true" if value else "false")]
        # the features directory, or every feature file by its own path (equally named files in different
        # sub-directories are different features with different reports)
        argv += ["-f", "null"] + (list(proj.feature_files) if layout.get("as_files") else ["features"])
        twice = bool(case.get("twice")) and not (prog.get("hook_faults") or prog.get("cleanups") or
                                                 prog.get("hook_faults_named") or (prog.get("cfg") or {}).get("stop"))
        if twice:
            res.label("one-configuration-two-runs")
        run = disk.run_inproc(proj, argv, prog, runs=2 if twice else 1)
        if run.escaped is not None:
            res.fail("C16.reporter-raises", "run with --junit raised %s: %s" % (type(run.escaped).__name__, run.escaped))
            return res
        show_skipped = (prog.get("cfg") or {}).get("show_skipped") is not False or \
            bool((case.get("userdata") or {}).get("show_skipped_always"))
        files = sorted(glob.glob(os.path.join(proj.root, "reports", "TESTS-*.xml")))
        reported = {}
        for path in files:
            try:
                dom = xml.dom.minidom.parse(path)
            except xml.parsers.expat.ExpatError as e:
                with open(path, "rb") as f:
                    data = f.read()
                res.fail("C16.not-well-formed", "%s is not well-formed XML: %s; around: %r"
                         % (os.path.basename(path), e, data[max(0, e.offset - 30):e.offset + 30]
                            if hasattr(e, "offset") else data[:200]))
                return res
            reported[os.path.basename(path)] = dom
        from .. import refmodel
        ref = refmodel.simulate(prog)
        cleanup_failed = set(name for kind, name in ref.cleanup_error_elems if kind == "scenario")
        hostile_seen = False
        failing = 0
        ran_object = runcheck.ran_object_lookup(run)
        floors = runcheck.status_floor(ref, prog)
        all_names = [i["name"] for _f, i in runcheck.instances(prog)]
        names_unique = len(set(all_names)) == len(all_names)
        by_file = dict((os.path.normpath(p), i) for i, p in enumerate(proj.feature_files))
        if len(set(id(f) for f in run.features)) != len(run.features) or len(run.features) != len(prog["features"]):
            res.fail("C16.features-run", "feature files %s, features run %s"
                     % (proj.feature_files, [f.filename for f in run.features]))
            return res
        for fobj in run.features:
            fi = by_file[os.path.normpath(fobj.filename)]
            rel = os.path.relpath(proj.feature_files[fi], "features")
            base = "TESTS-%s.xml" % rel.rsplit(".", 1)[0].replace(os.sep, ".")
            scenarios = [ran_object(s) for s in fobj.walk_scenarios()]
            if fobj.status.name == "skipped" and not show_skipped:
                if base in reported:
                    res.fail("C16.skipped-feature-reported", "%s written for a skipped feature" % base)
                continue
            dom = reported.get(base)
            if dom is None:
                res.fail("C16.report-missing", "no %s for feature %r (files: %s)"
                         % (base, fobj.name, sorted(reported)))
                continue
            suite = dom.documentElement
            cases = [n for n in suite.childNodes if n.nodeType == n.ELEMENT_NODE and n.tagName == "testcase"]
            expect = [s for s in scenarios if s.status.name != "skipped" or show_skipped]
            if [c.getAttribute("status") for c in cases] != [s.status.name for s in expect]:
                res.fail("C16.testcases", "%s has testcases with status %s, the feature's scenarios have %s"
                         % (base, [c.getAttribute("status") for c in cases], [s.status.name for s in expect]))
                continue
            for c, s in zip(cases, expect):
                if valid_xml_text(s.name) and c.getAttribute("name") != s.name:
                    res.fail("C16.testcase-name", "%s: testcase name %r, scenario name %r" % (base, c.getAttribute("name"), s.name))
                if not valid_xml_text(s.name):
                    hostile_seen = True
            # -- what the RUN demands (reference model), whatever behave's model says afterwards
            for c, s in zip(cases, expect):
                want_class = floors.get(s.name)
                if want_class and names_unique and runcheck.status_class(c.getAttribute("status")) != want_class:
                    res.fail("C16.testcase-status-vs-run", "%s: scenario %r ended in the %s class in the run (reference model) "
                             "but its testcase says status=%r" % (base, s.name, want_class, c.getAttribute("status")))
            # -- counters
            def count(tag):
                return sum(1 for c in cases for n in c.childNodes
                           if n.nodeType == n.ELEMENT_NODE and n.tagName == tag)
            for attr, actual in (("tests", len(cases)), ("failures", count("failure")), ("errors", count("error")),
                                 ("skipped", count("skipped"))):
                value = suite.getAttribute(attr)
                if value != str(actual):
                    res.fail("C16.counter.%s" % attr, "%s: %s=%r but the report has %d such entries"
                             % (base, attr, value, actual))
            # -- failed / errored scenarios carry an entry naming the responsible step or hook
            for c, s in zip(cases, expect):
                status = s.status.name
                if status != "failed" and status not in ERROR_CLASS:
                    continue
                failing += 1
                tag = "failure" if status == "failed" else "error"
                entries = [n for n in c.childNodes if n.nodeType == n.ELEMENT_NODE and n.tagName == tag]
                if not entries:
                    res.fail("C16.entry-missing", "%s: scenario %r ended %s but has no <%s> entry" % (base, s.name, status, tag))
                    continue
                text = entries[0].getAttribute("message") + u"\n" + u"".join(
                    n.data for n in entries[0].childNodes if n.nodeType in (n.TEXT_NODE, n.CDATA_SECTION_NODE))
                # "]]>" cannot occur inside CDATA; the reporter writes "]]&gt;" instead (behave issue #510)
                text = text.replace(u"]]&gt;", u"]]>")
                culprit = None
                for stp in s.all_steps:
                    if stp.status.name == "failed" or stp.status.name in ERROR_CLASS:
                        culprit = stp
                        break
                if s.name in cleanup_failed:
                    continue    # the final status comes from a failing cleanup: neither step nor hook to name
                if culprit is not None and s.hook_failed and u"HOOK-ERROR" in text:
                    continue    # step failure and hook failure in one scenario: the hook is named
                if culprit is not None:
                    if valid_xml_text(culprit.name) and u"\x1b" not in culprit.name and culprit.name not in text:
                        res.fail("C16.entry-names-step", "%s: scenario %r: the <%s> entry does not name step %r: %r"
                                 % (base, s.name, tag, culprit.name, text[:300]))
                elif s.hook_failed:
                    if u"HOOK-ERROR" not in text and u"hook" not in text.lower():
                        res.fail("C16.entry-names-hook", "%s: scenario %r failed in a hook but the entry says %r"
                                 % (base, s.name, text[:300]))
        res.label("reports:%d" % min(len(files), 3))
        if failing:
            res.label("failing-scenario")
        hostile = case.get("hostile")
        if hostile:
            res.label("hostile")
            from ..harness import _all_step_lists
            if any(len(v) > 1024 for f in case["program"]["features"] for lst in _all_step_lists(f) for st_ in lst
                   for v in (st_.get("emit") or {}).values() if isinstance(v, str)):
                res.label("hostile:output>1KiB")
        if hostile_seen:
            res.label("hostile-scenario-name")
        for k, v in (case.get("userdata") or {}).items():
            res.label("userdata:%s" % k)
        if not show_skipped:
            res.label("no-skipped")
        if layout.get("subdirs"):
            res.label("layout:sub-directory")
        if layout.get("names"):
            res.label("layout:equally-named-files")
        if layout.get("as_files"):
            res.label("layout:files-as-arguments")
        if prog.get("hook_faults"):
            res.label("hook-fault")
        if prog.get("hook_faults_named"):
            res.label("tag-hook-raises-for-a-container-tag")
        if any(c.get("raises") for c in prog.get("cleanups", [])) or ref.cleanup_error_elems:
            res.label("raising-cleanup")
            if prog.get("cleanup_msg") and not valid_xml_text(prog["cleanup_msg"]):
                res.label("raising-cleanup:hostile-message")
        res.nontrivial = bool(hostile) and failing > 0
    finally:
        proj.close()
    return res


@st.composite
def case_st(draw):
    prog = draw(gen.program_st(max_features=2, max_items=3, with_cleanup=True,
                               outcomes=["pass", "pass", "fail", "raise", "undefined", "pending", "skip", "convert"],
                               cfg=gen.cfg_st(flags=("stop", "dry_run"), p_tags=0.3)))
    hostile = draw(st.integers(0, 3)) != 0
    if hostile:
        for f in prog["features"]:
            if draw(st.booleans()):
                f["name"] = draw(hostile_text())
            sc = 0
            for it in f["items"]:
                subs = it["items"] if it["k"] == "r" else [it]
                if it["k"] == "r" and draw(st.booleans()):
                    it["name"] = draw(hostile_text(2))
                for sub in subs:
                    sc += 1
                    if draw(st.booleans()):
                        sub["name"] = u"%s #%d%s" % (draw(hostile_text(2)), sc, id_suffix(prog, f))
                    for s in sub["steps"]:
                        o = s["o"]
                        if o in ("pass", "fail", "raise", "undefined") and not s.get("a") and draw(st.booleans()):
                            s["tail"] = draw(hostile_text(2))
                        if o in ("pass", "fail", "raise") and draw(st.booleans()):
                            s["emit"] = {}
                            if draw(st.booleans()):
                                s["emit"]["stdout"] = draw(emitted_text())
                            if draw(st.booleans()):
                                s["emit"]["stderr"] = draw(emitted_text())
                            if o != "pass":
                                s["emit"]["msg"] = draw(emitted_text())
    if not prog.get("hook_faults") and not prog.get("cleanups") and draw(st.integers(0, 5)) == 0:
        # a TAG hook that raises for one tag wherever it is written (feature, rule, scenario level): the error belongs to
        # the element that carries the tag, not to the scenario that happened to run last
        ctags = sorted(set(t for f in prog["features"] for t in f["tags"]) |
                       set(t for f in prog["features"] for it in f["items"] if it["k"] == "r" for t in it["tags"]))
        if ctags:
            prog["hook_faults_named"] = [[draw(st.sampled_from(["after_tag", "after_tag", "before_tag"])),
                                          draw(st.sampled_from(ctags)), "Exception"]]
    from ..harness import _all_step_lists
    if hostile and (prog.get("cleanups") or any(st_.get("cl") == "raise" for f in prog["features"]
                                                  for lst in _all_step_lists(f) for st_ in lst)):
        # the exception of a raising cleanup carries hostile text as well
        prog["cleanup_msg"] = draw(free_text())
    userdata = {}
    for name in ("show_hostname", "show_multiline", "show_scenarios", "show_tags", "show_timings", "show_timestamp",
                 "show_skipped_always"):
        if draw(st.integers(0, 5)) == 0:
            userdata[name] = draw(st.booleans())
    case = {"program": prog, "userdata": userdata, "hostile": hostile, "twice": draw(st.integers(0, 3)) == 0}
    if len(prog["features"]) == 2 and draw(st.integers(0, 2)) == 0:
        case["layout"] = {"subdirs": {"1": draw(st.sampled_from(["sub", "a/b"]))}, "as_files": draw(st.booleans())}
        if draw(st.booleans()):
            case["layout"]["names"] = {"1": "f0.feature"}      # the same base name in another directory
    return case


def id_suffix(prog, feat):
    return u" f%d" % prog["features"].index(feat)


def explore(rec):
    quick = rec.tier == "quick"
    rec.hyp("junit-runs", case_st(), 6000 if quick else 80000)
    def cli_case(c):
        # at least one scenario name outside ASCII (every second case keeps what was drawn)
        c = dict(c, kind="cli")
        for f in c["program"]["features"]:
            for it in f["items"]:
                for sub in (it["items"] if it["k"] == "r" else [it]):
                    if sub.get("name") is None:
                        sub["name"] = u"Pr\u00fcfung \u6771\u4eac %d" % len(f["items"])
                        return c
        return c
    rec.hyp("cli-non-utf8-locale", case_st().map(cli_case), 48 if quick else 600)


def required_labels(tier):
    return ["hostile", "hostile:output>1KiB", "hostile-scenario-name", "failing-scenario", "no-skipped", "hook-fault", "one-configuration-two-runs", "tag-hook-raises-for-a-container-tag", "raising-cleanup", "raising-cleanup:hostile-message",
            "userdata:show_skipped_always", "userdata:show_scenarios", "reports:2", "layout:sub-directory",
            "layout:equally-named-files", "layout:files-as-arguments", "cli:LC_ALL=C", "cli:non-ascii-names"]


KNOWN_PREDICATES = {}


def valid_case(case):
    return bool(case.get("program", {}).get("features"))


RULE = RULE + " " + ('Testcase statuses are compared with the Scenario objects that ran and with the status class the reference model derives from the generated outcomes and faults; hooks may read element statuses.')
