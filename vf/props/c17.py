# -*- coding: utf-8 -*-
"""C17 -- Rerun file lists exactly the unsuccessful scenarios; fed back it selects them."""
from __future__ import annotations

import copy
import os

from hypothesis import strategies as st

from .. import disk, gen, runcheck
from ..core import CaseResult
from ..program import normalize, scenario_instances

ID = "C17"
LEVEL = "exploration"
RULE = ("Two-run histories on a scratch project with 1-3 feature files (passing, assertion-failing, erroring -- exception, "
        "undefined step, hook error via an injected hook fault -- and deselected scenarios; plain scenarios and outline rows, "
        "inside and outside rules): run 1 with the real Runner and `-f rerun -o FILE` (FILE in cwd or in a sub-directory, "
        "optionally a stale FILE present beforehand); run 2 with `@FILE` as only path. Oracle: the non-comment lines of FILE "
        "are exactly the locations of the scenarios whose final status is failed or of error class, in run order; no such "
        "scenario => FILE absent; run 2 starts exactly those scenarios, every other scenario is skipped. Non-trivial = "
        "at least one failed and one error-class scenario, or a rerun file in a sub-directory.")
ASSUMPTIONS = [
    "the expected list is derived from the model's final statuses after run 1 (the statement relates report and outcome)",
    "scenarios that fail in run 1 fail again in run 2 (outcomes are fixed by the step text); hook faults are not re-injected",
]
SIMPLIFY = {"o": lambda v: "pass" if not v.startswith("<") else None, "tagx": "nullable", "bg": "nullable"}
WATCHDOG_S = {"quick": 900, "thorough": 4 * 3600}

ERROR_CLASS = {"error", "hook_error", "undefined", "pending", "cleanup_error"}


def check(case):
    res = CaseResult()
    prog = runcheck.resolve_faults(case["program"])
    normalize(prog)
    rerun_rel = case.get("rerun_file") or "rerun.txt"
    subdirs = {}
    for k, v in (case.get("subdirs") or {}).items():
        subdirs[int(k)] = v
    proj = disk.Project(prog, subdirs=subdirs)
    try:
        rerun_path = os.path.join(proj.root, rerun_rel)
        if case.get("stale"):
            os.makedirs(os.path.dirname(rerun_path), exist_ok=True)
            with open(rerun_path, "w") as f:
                f.write("# -- RERUN: stale\nfeatures/f0.feature:1\n")
        fmt_name = "rerun"
        if case.get("fmt_class"):
            # a user-defined formatter derived from RerunFormatter with its class-level switches on (descriptions of the
            # failed scenarios as comment lines, a timestamp): the entries are the same
            import sys
            mod_name = "vf_rerun_fmt%d" % int(case["fmt_class"])
            with open(os.path.join(proj.root, mod_name + ".py"), "w") as f:
                f.write("from behave.formatter.rerun import RerunFormatter\n\n\n"
                        "class RerunWithDescriptions(RerunFormatter):\n"
                        "    show_failed_scenarios_descriptions = True\n"
                        "    show_timestamp = %s\n" % bool(int(case["fmt_class"]) > 1))
            fmt_name = mod_name + ":RerunWithDescriptions"
            sys.modules.pop(mod_name, None)
            sys.path.insert(0, proj.root)
            res.label("user-defined-rerun-formatter-class")
        argv = disk.cli_args(prog.get("cfg") or {}) + ["-f", fmt_name, "-o", rerun_rel, "features"]
        try:
            run1 = disk.run_inproc(proj, argv, prog)
        finally:
            if case.get("fmt_class"):
                sys.path.remove(proj.root)
                sys.modules.pop(mod_name, None)
        if run1.escaped is not None:
            res.fail("C17.run1.escape", "run 1 raised %r" % (run1.escaped,))
            return res
        # -- expected list from the model after run 1
        expected = []
        failed_kind = set()
        ran_object = runcheck.ran_object_lookup(run1)
        for f in run1.features:
            for s in f.walk_scenarios():
                s = ran_object(s)       # the object that RAN, not a rebuilt row
                st_name = s.status.name
                if st_name == "failed" or st_name in ERROR_CLASS:
                    expected.append((str(s.location), s.name))
                    failed_kind.add("failed" if st_name == "failed" else "error")
        # -- what the RUN demands (reference model): every scenario that failed / errored is expected
        from .. import refmodel
        order = [int(os.path.basename(f.filename)[1:].split(".")[0]) for f in run1.features]
        prog_run_order = dict(prog, features=[prog["features"][i] for i in order])     # sub-directories come last
        ref = refmodel.simulate(prog_run_order)
        all_names = [s.name for f in run1.features for s in f.walk_scenarios()]
        listed = set(n for _l, n in expected)
        for name, klass in sorted(runcheck.status_floor(ref, prog).items()):
            if all_names.count(name) == 1 and (name in listed) != (klass != "passed"):
                res.fail("C17.status-vs-run", "scenario %r ended in the %s class in run 1 (reference model) but its "
                         "final status does not say so" % (name, klass))
        lines = None
        if os.path.exists(rerun_path):
            with open(rerun_path, encoding="utf-8") as f:
                lines = [ln.strip() for ln in f if ln.strip() and not ln.strip().startswith("#")]
        if not expected:
            if lines is not None:
                res.fail("C17.stale-file-not-removed" if case.get("stale") else "C17.file-without-failures",
                         "no scenario failed but %s exists with %r" % (rerun_rel, lines))
            res.label("no-failures")
            if case.get("stale"):
                res.label("stale-removed")
            return res
        want = [loc for loc, _n in expected]
        if lines is None:
            res.fail("C17.file-missing", "scenarios %s failed/errored but no rerun file was written"
                     % [n for _l, n in expected])
            return res
        want_cmp = want
        if os.path.dirname(rerun_rel):
            # entries of a list file are relative to the list file's directory
            base = os.path.dirname(rerun_rel)
            lines_cmp = [os.path.normpath(os.path.join(base, ln)) if not os.path.isabs(ln) else ln for ln in lines]
            alt = [os.path.normpath(ln) for ln in lines]
        else:
            lines_cmp = [os.path.normpath(ln) for ln in lines]
            alt = lines_cmp
        want_cmp = [os.path.normpath(w) for w in want]
        if lines_cmp != want_cmp and alt != want_cmp:
            res.fail("C17.listed-locations", "rerun file lists %r, unsuccessful scenarios are %r (%s)"
                     % (lines, want, [(n) for _l, n in expected]))
            return res
        # -- run 2: feed the file back
        prog2 = copy.deepcopy(prog)
        prog2.pop("hook_faults", None)
        prog2.pop("cleanups", None)
        argv2 = ["--no-color", "--no-summary", "@" + rerun_rel]
        run2 = disk.run_inproc(proj, argv2, prog2)
        if run2.escaped is not None:
            res.fail("C17.run2.escape", "run 2 with @%s raised %s: %s (file content %r)"
                     % (rerun_rel, type(run2.escaped).__name__, run2.escaped, lines))
            return res
        # scenarios are identified by their location (names need not be unique)
        started = [os.path.normpath(str(obj.location)) for obj in run2.ran_scenarios]
        want_names = [n for _l, n in expected]
        if sorted(started) != sorted(want_cmp):
            res.fail("C17.rerun-selection", "run 2 started %r, the rerun file lists %r (%r)" % (started, want, want_names))
        for f in run2.features:
            for s in f.walk_scenarios():
                if os.path.normpath(str(s.location)) not in want_cmp and s.status.name != "skipped":
                    res.fail("C17.rerun-others-not-skipped", "run 2: %r at %s is not in the rerun file but has status %s"
                             % (s.name, s.location, s.status.name))
                    break
        res.label("failures")
        if (prog.get("cfg") or {}).get("names"):
            res.label("failures:with-name-selection")
            if (prog.get("cfg") or {}).get("show_skipped") is False:
                res.label("failures:with-name-selection+no-skipped")
        for k in failed_kind:
            res.label("kind:" + k)
        if os.path.dirname(rerun_rel):
            res.label("rerun-file:subdir")
        for v in subdirs.values():
            res.label("feature-dir:" + ("symlink" if v.startswith("@link:") else ("special-characters" if v != "sub" else "plain")))
        if case.get("stale"):
            res.label("stale-overwritten")
        if any(i["outline"] is not None for f in prog["features"] for i in scenario_instances(f)
               if i["name"] in want_names):
            res.label("row-listed")
        if any(k == "skip_feature" for _i, k in prog.get("hook_faults") or []):
            res.label("feature.skip()-after-a-failure")
        elif prog.get("hook_faults"):
            res.label("hook-fault")
        if prog.get("cleanups") and ref.cleanup_error_elems:
            res.label("raising-cleanup")
            if any(k == "scenario" for k, _n in ref.cleanup_error_elems):
                res.label("raising-cleanup:scenario-scope")
        if case.get("inherited_setup_tag"):
            res.label("inherited-@setup/@teardown")
        all_names = [s.name for f in run1.features for s in f.walk_scenarios()]
        if any(all_names.count(n) > 1 for n in want_names):
            res.label("listed-name-not-unique")
        res.nontrivial = len(failed_kind) == 2 or bool(os.path.dirname(rerun_rel))
    finally:
        proj.close()
    return res


@st.composite
def case_st(draw):
    n = draw(st.integers(1, 3))
    prog = draw(gen.program_st(max_features=n, faults=False, max_items=3,
                               outcomes=["pass", "pass", "fail", "raise", "undefined", "pending", "skip", "convert"],
                               cfg=gen.cfg_st(flags=("stop",), p_tags=0.3)))
    f = draw(st.integers(0, 7))
    if f in (0, 1):
        prog["hook_faults"] = [[draw(st.integers(0, 10000)), "Exception"]]
    elif f == 2:
        # an after_scenario hook skips the rest of its feature (feature.skip() on a partly executed feature)
        prog["hook_faults"] = [[draw(st.integers(0, 10000)), "skip_feature"]]
    elif f == 3:
        # a cleanup registered by a hook (context.add_cleanup) raises when its scope ends: the owning element
        # has a problem although all of its steps may have passed
        prog["cleanups"] = [{"at": draw(st.integers(0, 10000)), "raises": True}]
    if draw(st.integers(0, 3)) == 0:
        # a selection by name next to everything else (--name): only matching scenarios run, fail and are listed
        prog["cfg"]["names"] = [draw(st.sampled_from([u"[SO][0-9]*[13579]( |$)", u"[SO][0-9]*[02468]( |$)", u"^S", u"^O",
                                                      u"@1\\.1 ", u"[1-4]( |$)"]))]
    case = {"program": prog, "stale": draw(st.integers(0, 3)) == 0,
            "rerun_file": draw(st.sampled_from(["rerun.txt", "rerun.txt", "reports/rerun.txt", "features/rerun.features"])),
            "fmt_class": draw(st.sampled_from([0, 0, 0, 0, 1, 2]))}
    if draw(st.booleans()):
        # sub-directories: plain, with a blank and a '#' in the name, reached through a symbolic link
        case["subdirs"] = {"1": draw(st.sampled_from(["sub", "sub", "ticket #12", "with blank", "@link:common"]))}
    if draw(st.integers(0, 4)) == 0:
        # @setup / @teardown inherited from the feature or a rule: only a scenario's OWN tag exempts it from a
        # location selection, so these scenarios are skipped in run 2 like all other unlisted ones
        f = draw(st.sampled_from(prog["features"]))
        target = draw(st.sampled_from([f] + [it for it in f["items"] if it["k"] == "r"]))
        target["tags"] = list(target["tags"]) + [draw(st.sampled_from(["setup", "teardown"]))]
        case["inherited_setup_tag"] = True
    if draw(st.integers(0, 2)) == 0:
        # equally named scenarios / outlines (typically in different rules): names are no identity
        for f in prog["features"]:
            for it in f["items"]:
                for sub in (it["items"] if it["k"] == "r" else [it]):
                    if draw(st.booleans()):
                        sub["name"] = draw(st.sampled_from([u"same", u"same", u"twin"]))
    return case


def explore(rec):
    quick = rec.tier == "quick"
    rec.hyp("two-run-histories", case_st(), 5000 if quick else 60000)


def required_labels(tier):
    return ["failures:with-name-selection+no-skipped", "user-defined-rerun-formatter-class", "no-failures", "failures", "kind:failed", "kind:error", "rerun-file:subdir", "stale-removed",
            "stale-overwritten", "row-listed", "hook-fault", "listed-name-not-unique", "inherited-@setup/@teardown", "feature.skip()-after-a-failure",
            "feature-dir:symlink", "feature-dir:special-characters", "raising-cleanup:scenario-scope"]


KNOWN_PREDICATES = {}


RULE = RULE + " " + ('Scenarios are identified by location (equally named scenarios are generated); the set of unsuccessful scenarios is also demanded by the reference model in run order.')
RULE = RULE + " " + ('One history in eight registers a cleanup (context.add_cleanup in a hook) that raises when its scope ends: a scenario whose only problem is its failed cleanup is listed as well.')
