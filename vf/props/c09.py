# -*- coding: utf-8 -*-
"""C09 -- Tag selection with inheritance selects exactly the matching scenarios."""
from __future__ import annotations

from hypothesis import strategies as st

from .. import gen, refmodel, runcheck, tagref
from ..core import CaseResult
from ..program import all_steps_of, scenario_instances

ID = "C09"
LEVEL = "exploration"
RULE = ("Random feature trees with tags on feature / rule / scenario / outline (incl. parametrised <col> tags) / examples "
        "block, a tag expression in either dialect (negations, wildcards), show_skipped and dry-run on/off, run by the real "
        "runner. Oracle: own evaluation of the expression over own+inherited tags decides which scenarios must execute "
        "(step calls, scenario hooks) and which must be skipped with all steps skipped; container status skipped iff "
        "nothing in it is selected. Non-trivial = some scenario whose selection differs from what its own tags alone would "
        "give (inheritance matters).")
ASSUMPTIONS = [
    "whether container hooks fire for a container whose own tags match while none of its scenarios is selected is left open",
    "step outcomes are pass/fail only and --stop is off, so that every selected scenario is reached",
]
SIMPLIFY = {"o": lambda v: "pass" if not v.startswith("<") else None, "bg": "nullable"}
WATCHDOG_S = {"quick": 900, "thorough": 4 * 3600}


def run_with_late_tags(res, program):
    """behave driven as a library: the features are parsed, a tagging pass LOOKS at every element's effective tags, then
    adds the last tag of some plain scenarios / rules through the public `.tags` list (a quarantine list, tags from a
    ticket system), then the model is run: the selection follows the tags the elements have when they run."""
    import copy
    from behave.model import Rule
    from behave.model import Tag
    from ..harness import run_program
    prog = runcheck.resolve_faults(program)
    ref = refmodel.simulate(prog)
    late = {}       # (kind, name) -> tag
    stripped = copy.deepcopy(prog)
    for f in stripped["features"]:
        for it in f["items"]:
            for el in [it] + (it["items"] if it["k"] == "r" else []):
                if el["k"] in ("s", "r") and el["tags"] and (len(el["name"]) + len(el["tags"])) % 2 == 0:
                    late[(el["k"], el["name"])] = el["tags"].pop()

    def setup(runner, plan):
        elements = []
        for feature in runner.features:
            feature.effective_tags      # noqa: the tagging pass looks first ...
            for item in feature.run_items:
                elements.append(("r" if isinstance(item, Rule) else "s", item))
                if isinstance(item, Rule):
                    elements.extend(("s", sub) for sub in item.run_items)
        for kind, el in elements:
            el.effective_tags           # noqa
        for kind, el in elements:
            tag = late.get((kind, el.name))
            if tag is not None and not hasattr(el, "examples"):
                el.tags.append(Tag(tag, el.line))       # ... and adds tags afterwards
    run = run_program(stripped, setup=setup)
    if late:
        res.label("tags-added-to-the-parsed-model-before-the-run")
    return prog, ref, run


def check(case):
    res = CaseResult()
    if any(k == "skip_feature" for _i, k in case["program"].get("hook_faults") or []):
        from ..program import normalize
        import copy
        probe = copy.deepcopy(case["program"])
        normalize(probe)
        if any(not all_steps_of(f, i) for f, i in runcheck.instances(probe)):
            # a scenario without steps that was run and is then covered by feature.skip() has no status of its
            # own to keep: outside the statement
            res.label("excluded:stepless-scenario-with-late-skip")
            return res
    if case.get("late_tags"):
        prog, ref, run = run_with_late_tags(res, case["program"])
    else:
        prog, ref, run = runcheck.run_and_ref(case["program"])
    if run.escaped is not None:
        res.fail("C09.escape", "exception escaped run(): %r" % (run.escaped,))
        return res
    cfg = prog.get("cfg") or {}
    dry = bool(cfg.get("dry_run"))
    ast = refmodel.tag_ast(cfg)
    by_name = runcheck.model_scenario_map(run.features)
    selected = set(ref.selected)
    called = set(name for name, _uid in run.calls)
    hooked = set(ident for name, ident in run.hooks if name == "before_scenario")

    inherit_matters = False
    for feat in prog["features"]:
        for inst in scenario_instances(feat):
            name = inst["name"]
            eff = refmodel.effective_tags(feat, inst)
            own_only = tagref.evaluate(ast, set(inst["tags"]))
            if own_only != (name in selected):
                inherit_matters = True
            objs = by_name.get(name, [])
            if len(objs) != 1:
                res.fail("C09.model", "scenario %r occurs %d times in the model" % (name, len(objs)))
                continue
            sc = objs[0]
            steps = [s.status.name for s in sc.all_steps]
            nsteps = len(all_steps_of(feat, inst))
            if name in selected:
                if sc.status.name == "skipped":
                    res.fail("C09.selected-but-skipped",
                             "%r (effective tags %s) satisfies the expression but is skipped"
                             % (name, sorted(eff)))
                if not dry:
                    if name not in hooked:
                        res.fail("C09.selected-but-not-run", "%r is selected but before_scenario was not called" % name)
                    if nsteps and name not in called and _first_defined(feat, inst):
                        res.fail("C09.selected-but-not-run", "%r is selected but no step function was called" % name)
            else:
                if sc.status.name != "skipped":
                    res.fail("C09.deselected-not-skipped",
                             "%r (effective tags %s) does not satisfy the expression but has status %s"
                             % (name, sorted(eff), sc.status.name))
                if any(s != "skipped" for s in steps):
                    res.fail("C09.deselected-steps-not-skipped", "%r: step statuses %s" % (name, steps))
                if name in called:
                    res.fail("C09.deselected-step-called", "a step function of deselected %r was called" % name)
                if name in hooked:
                    res.fail("C09.deselected-hook-called", "before_scenario was called for deselected %r" % name)
    if dry and (run.calls or run.hooks):
        res.fail("C09.dry-run-called", "dry-run called %d step functions / %d hooks" % (len(run.calls), len(run.hooks)))

    # -- containers
    from behave.model import Rule
    for feat, fobj in zip(prog["features"], run.features):
        insts = list(scenario_instances(feat))
        if not _has_empty_outline(feat["items"]):
            _container(res, "feature", feat["name"], fobj.status.name, insts, selected)
        robjs = [x for x in fobj.run_items if isinstance(x, Rule)]
        rules = [it for it in feat["items"] if it["k"] == "r"]
        for rule, robj in zip(rules, robjs):
            rinsts = [i for i in insts if i["rule"] is rule]
            if not _has_empty_outline(rule["items"]):
                _container(res, "rule", rule["name"], robj.status.name, rinsts, selected)

    res.nontrivial = inherit_matters
    if ref.skipped_by_hook:
        res.label("excluded-at-run-time:" + sorted(ref.skipped_by_hook)[0][0])
        if any(it["k"] == "o" for f in prog["features"] for it, _r in _items(f)):
            res.label("excluded-at-run-time:with-outline")
    if inherit_matters:
        res.label("inheritance-matters")
    res.label("dialect:%s" % (cfg.get("dialect") or "none"))
    if dry:
        res.label("dry-run")
    if cfg.get("show_skipped") is False:
        res.label("no-skipped")
    if ref.not_selected and ref.selected:
        res.label("mixed-selection")
    if any("<" in t for f in prog["features"] for it, _r in _items(f) for t in it["tags"]):
        res.label("parametrised-tag")
    if ast != ["true"] and any(op[0] == "glob" for op in tagref.operands(ast)):
        res.label("wildcard")
    if _has_not(ast):
        res.label("negation")
    return res


def _has_empty_outline(items):
    """An outline without any examples row has no child: its status (and so its parent's) is
    outside the statement (containers are required to be non-empty)."""
    for it in items:
        if it["k"] == "r":
            if _has_empty_outline(it["items"]) or not it["items"]:
                return True
        elif it["k"] == "o" and not any(ex["rows"] for ex in it["ex"]):
            return True
    return False


def _first_defined(feat, inst):
    from ..program import step_outcome
    steps = all_steps_of(feat, inst)
    return bool(steps) and step_outcome(steps[0], inst["rowdict"]) != "undefined"


def _items(feat):
    from ..program import iter_items
    return iter_items(feat)


def _has_not(ast):
    if ast[0] == "not":
        return True
    if ast[0] in ("and", "or"):
        return any(_has_not(x) for x in ast[1:])
    return False


def _container(res, kind, name, status, insts, selected):
    if not insts:
        return      # empty containers are out of scope
    any_sel = any(i["name"] in selected for i in insts)
    if not any_sel and status != "skipped":
        res.fail("C09.%s.not-skipped" % kind, "%s %r has no selected scenario but status %s" % (kind, name, status))
    if any_sel and status == "skipped":
        res.fail("C09.%s.skipped" % kind, "%s %r contains a selected scenario but is skipped" % (kind, name))


@st.composite
def case_st(draw):
    prog = draw(gen.program_st(faults=False, max_features=2, outcomes=["pass", "fail"],
                               cfg=gen.cfg_st(flags=("dry_run",), p_tags=0.95)))
    # make inherited tags matter more often: hoist the tags of some scenarios to their container
    for feat in prog["features"]:
        for item in feat["items"]:
            if item["k"] == "r":
                for sub in item["items"]:
                    if sub["tags"] and draw(st.integers(0, 2)) == 0:
                        item["tags"] = [t for t in sub["tags"] if "<" not in t][:2] or item["tags"]
                        sub["tags"] = [t for t in sub["tags"] if "<" in t]
            elif item["tags"] and draw(st.integers(0, 2)) == 0:
                feat["tags"] = [t for t in item["tags"] if "<" not in t][:2] or feat["tags"]
                item["tags"] = [t for t in item["tags"] if "<" in t]
    if not prog["cfg"].get("dry_run") and draw(st.integers(0, 3)) == 0:
        # run-time exclusion (documented): feature.skip() / rule.skip() in the container's before-hook, or an
        # after_scenario hook that skips the rest of its partly executed feature; what is excluded that way is
        # deselected, everything else is decided by the tags alone
        from ..program import normalize
        normalize(prog)
        conts = [["before_feature", f["name"]] for f in prog["features"]] + \
                [["before_rule", it["name"]] for f in prog["features"] for it in f["items"] if it["k"] == "r"]
        if draw(st.booleans()):
            prog["hook_faults"] = [[draw(st.integers(0, 10000)), "skip_feature"]]
        else:
            prog["hook_faults_named"] = [draw(st.sampled_from(conts)) + ["skip"]]
    elif draw(st.integers(0, 4)) == 0:
        return {"program": prog, "late_tags": True}
    return {"program": prog}


def explore(rec):
    quick = rec.tier == "quick"
    rec.hyp("tagged-programs", case_st(), 8000 if quick else 150000)


def required_labels(tier):
    return ["inheritance-matters", "dialect:v1", "dialect:v2", "dry-run", "no-skipped", "mixed-selection",
            "parametrised-tag", "wildcard", "negation", "excluded-at-run-time:feature", "excluded-at-run-time:rule",
            "excluded-at-run-time:with-outline", "tags-added-to-the-parsed-model-before-the-run"]


KNOWN_PREDICATES = {}


RULE = RULE + " " + ('Configurations may give several --tags options (one per operand of a top-level and).')
RULE = RULE + " " + ('A quarter of the non-dry programs exclude a container at run time (feature.skip() / rule.skip() in its before-hook, or context.feature.skip() in an after_scenario hook of a partly executed feature): what is excluded is expected skipped, unhooked and uncalled like a deselected scenario.')
