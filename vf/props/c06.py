# -*- coding: utf-8 -*-
"""C06 -- Scenario Outline expansion: one scenario per row, exact placeholder substitution."""
from __future__ import annotations

import copy

from hypothesis import strategies as st

from ..core import CaseResult
from ..program import render_feature

ID = "C06"
LEVEL = "exploration"
RULE = ("Outlines with <column> placeholders in name, step names, doc-strings, step-table headings and cells and tags; 0-3 "
        "examples blocks with different column orders, names, tags and 0-4 rows; cell values empty / unicode / containing other "
        "column NAMES as plain text (never '<' or '>'); name-annotation schemas over {name} {row.id} {row.index} {examples.name} "
        "{examples.index}; rendered to Gherkin and parsed by the real parser; then a drawn history of table-API edits (add_row, "
        "add_column, ensure_column_exists, remove_column) followed by re-reading .scenarios. Oracle: own simultaneous "
        "substitution over the abstract outline: one scenario per row in block-then-row order, name per schema, substituted "
        "step names / texts / table cells / tags + examples tags, line == row line, template untouched, generated scenarios "
        "independent of each other. Non-trivial = >= 2 rows and placeholders in >= 2 different positions, or >= 2 blocks with "
        "different column order.")
ASSUMPTIONS = [
    "cell values never contain '<' or '>' (values are plain text, as in the statement)",
    "outline tags whose placeholder is not a column are dropped by behave: not compared",
    "values used inside tags are tag-safe characters or blanks (documented normalisation blank -> '_')",
]
SIMPLIFY = {"text": "nullable", "table": "nullable"}
WATCHDOG_S = {"quick": 900, "thorough": 4 * 3600}

COLS = [u"a", u"b", u"col", u"x1", u"user-id"]      # headings need not be identifiers
VALUES = [u"", u"1", u"v", u"two words", u"ü-ni", u"a", u"b", u"col", u"a b", u"3.5", u"日本", u"x|y", u"it's", u"UP"]
TAG_VALUES = [u"1", u"v", u"two words", u"t.x", u"k=v", u"A"]
WORDS = [u"uses", u"and", u"value", u"=", u"(", u")", u"<", u">", u"<unknown>", u"a", u"b", u"x"]
SCHEMAS = [None, u"{name} -- @{row.id} {examples.name}", u"{name} [{examples.index}/{row.index}]",
           u"{examples.name}::{name}", u"{name}", u"{row.id}:{name}"]


def subst(text, rowdict):
    """Simultaneous substitution of <col> placeholders (values contain no '<' / '>')."""
    out = []
    i = 0
    while i < len(text):
        if text[i] == u"<":
            j = text.find(u">", i + 1)
            if j != -1 and text[i + 1:j] in rowdict:
                out.append(rowdict[text[i + 1:j]])
                i = j + 1
                continue
        out.append(text[i])
        i += 1
    return u"".join(out)


@st.composite
def template_text(draw, cols, min_parts=1):
    n = draw(st.integers(min_parts, 4))
    parts = []
    for _ in range(n):
        if draw(st.integers(0, 2)) == 0:
            parts.append(u"<%s>" % draw(st.sampled_from(cols)))
        else:
            parts.append(draw(st.sampled_from(WORDS)))
    return u" ".join(parts).strip() or u"x"


# WIDE tables (a dozen columns; c1 is a prefix of c10, c11, ...), TALL ones (a dozen rows) and outlines with a dozen
# Examples sections: what holds for three holds for thirteen
COLS_WIDE = COLS + [u"c%d" % i for i in range(1, 13)]


@st.composite
def outline_case(draw):
    big = draw(st.sampled_from([None] * 9 + ["wide", "wide", "tall", "sections"]))
    ncols = draw(st.integers(1, 3)) if big != "wide" else draw(st.integers(11, 14))
    cols = draw(st.permutations(COLS if big != "wide" else COLS_WIDE))[:ncols]
    tagcol = draw(st.sampled_from(cols)) if draw(st.booleans()) else None
    outline = {"k": "o", "name": draw(template_text(cols)), "tags": [], "steps": [], "ex": []}
    # tags: plain, parametrised (one column reserved for tag-safe values)
    tags = draw(st.lists(st.sampled_from([u"plain", u"wip", u"t.x"]), max_size=2, unique=True))
    if tagcol is not None:
        tags.append(draw(st.sampled_from([u"<%s>", u"p.<%s>", u"<%s>.s"])) % tagcol)
    outline["tags"] = tags
    for i in range(draw(st.integers(1, 3))):
        step = {"kw": ["Given", "When", "Then"][i % 3], "name": draw(template_text(cols))}
        v = draw(st.integers(0, 3))
        if v == 0:
            lines = [draw(template_text(cols)) for _ in range(draw(st.integers(1, 3)))]
            step["text"] = u"\n".join(lines)
        elif v == 1:
            w = draw(st.integers(1, 2))
            step["table"] = [[draw(template_text(cols)) for _ in range(w)]
                             for _ in range(draw(st.integers(1, 3)))]
        outline["steps"].append(step)
    for k in range(draw(st.integers(0, 3)) if big != "sections" else draw(st.integers(10, 12))):
        order = list(draw(st.permutations(cols)))
        rows = []
        for _ in range(draw(st.integers(0, 4)) if not (big == "tall" and k == 0) else draw(st.integers(10, 13))):
            row = []
            for c in order:
                row.append(draw(st.sampled_from(TAG_VALUES if c == tagcol else VALUES)))
            rows.append(row)
        outline["ex"].append({"name": draw(st.sampled_from([u"", u"E", u"ex <%s>" % cols[0], u"two words"])),
                              "tags": draw(st.lists(st.sampled_from([u"e1", u"e2", u"wip", u"region=eu/west", u"owner=ops@example.com"]),
                                                    max_size=2, unique=True)),
                              "cols": order, "rows": rows})
    edits = []
    for _ in range(draw(st.integers(0, 3)) if draw(st.booleans()) else 0):
        kind = draw(st.sampled_from(["add_row", "add_column", "ensure_column", "remove_column", "remove_columns",
                                     "broken_build"]))
        edits.append({"op": kind, "ex": draw(st.integers(0, 2)), "col": draw(st.sampled_from(COLS + [u"new"])),
                      "values": [draw(st.sampled_from(VALUES)) for _ in range(4)]})
    if big == "tall" and not outline["ex"]:
        big = None
    return {"outline": outline, "schema": draw(st.sampled_from(SCHEMAS)), "edits": edits, "big": big,
            "preview": draw(st.sampled_from([0, 0, 1, 2, 3])),
            "tagsel": draw(st.sampled_from([None, None, None, "e1", "no_such_tag", "not e2"])),
            "in_rule": draw(st.booleans()), "noise": draw(st.lists(st.integers(0, 200), max_size=6))}


def expected_scenarios(outline, examples, schema, tagcols_safe=True):
    """examples: list of dict(name, tags, cols, rows:[(cells, line)]) -> list of expected scenarios."""
    schema = schema or u"{name} -- @{row.id} {examples.name}"
    out = []
    for ei, ex in enumerate(examples, 1):
        for ri, (cells, line) in enumerate(ex["rows"], 1):
            rowdict = dict(zip(ex["cols"], cells))
            ex_name = subst(ex["name"], rowdict)
            name = schema.replace(u"{name}", u"\0N").replace(u"{examples.name}", u"\0E") \
                .replace(u"{examples.index}", u"%d" % ei).replace(u"{row.index}", u"%d" % ri) \
                .replace(u"{row.id}", u"%d.%d" % (ei, ri))
            name = name.replace(u"\0N", subst(outline["name"], rowdict)).replace(u"\0E", ex_name)
            tags = []
            for t in outline["tags"]:
                t2 = subst(t, rowdict)
                if u"<" in t2 and u">" in t2:
                    tags.append(None)      # unknown placeholder: open
                    continue
                tags.append(t2.replace(u" ", u"_"))
            tags = [t for t in tags if t is not None] + list(ex["tags"])
            steps = []
            for s in outline["steps"]:
                steps.append({"name": subst(s["name"], rowdict),
                              "text": None if s.get("text") is None else subst(s["text"], rowdict),
                              "table": None if s.get("table") is None else
                              [[subst(c, rowdict) for c in row] for row in s["table"]]})
            out.append({"name": name, "tags": tags, "steps": steps, "line": line})
    return out


def actual_scenarios(outline_obj):
    out = []
    for sc in outline_obj.scenarios:
        steps = []
        for s in sc.steps:
            steps.append({"name": s.name, "text": None if s.text is None else str(s.text),
                          "table": None if s.table is None else
                          [list(s.table.headings)] + [list(r.cells) for r in s.table.rows]})
        out.append({"name": sc.name, "tags": [str(t) for t in sc.tags], "steps": steps, "line": sc.line})
    return out


def template_snapshot(o):
    return {"name": o.name, "tags": [str(t) for t in o.tags],
            "steps": [(s.keyword, s.name, None if s.text is None else str(s.text),
                       None if s.table is None else [list(s.table.headings)] + [list(r.cells) for r in s.table.rows])
                      for s in o.steps]}


def compare(res, got, want, phase):
    if len(got) != len(want):
        res.fail("C06.count", "[%s] %d scenarios generated, %d rows" % (phase, len(got), len(want)))
        return False
    for i, (g, w) in enumerate(zip(got, want)):
        for key, clause in (("name", "name"), ("tags", "tags"), ("line", "line")):
            if g[key] != w[key]:
                res.fail("C06.%s" % clause, "[%s] scenario #%d %s: generated %r, expected %r" % (phase, i, key, g[key], w[key]))
                return False
        if len(g["steps"]) != len(w["steps"]):
            res.fail("C06.steps", "[%s] scenario #%d has %d steps, expected %d" % (phase, i, len(g["steps"]), len(w["steps"])))
            return False
        for j, (gs, ws) in enumerate(zip(g["steps"], w["steps"])):
            for key, clause in (("name", "step-name"), ("text", "docstring"), ("table", "step-table")):
                if gs[key] != ws[key]:
                    res.fail("C06.%s" % clause, "[%s] scenario #%d step #%d %s: generated %r, expected %r"
                             % (phase, i, j, key, gs[key], ws[key]))
                    return False
    return True


def check(case):
    from behave import parser
    from behave.model import Rule
    res = CaseResult()
    outline = case["outline"]
    feat = {"name": u"F", "tags": [u"ftag"], "items": []}
    if case.get("in_rule"):
        feat["items"] = [{"k": "r", "name": u"R", "tags": [], "items": [copy.deepcopy(outline)]}]
    else:
        feat["items"] = [copy.deepcopy(outline)]
    if case.get("noise"):
        feat["noise"] = case["noise"]
    text, facts = render_feature(feat)
    feature = parser.parse_feature(text, filename="features/o.feature")
    container = feature.run_items[0]
    ofacts = facts["items"][0]
    if isinstance(container, Rule):
        oobj = container.run_items[0]
        ofacts = ofacts["items"][0]
    else:
        oobj = container
    if case.get("schema"):
        oobj.annotation_schema = case["schema"]
    before = template_snapshot(oobj)
    if case.get("tagsel"):
        # a --tags selection that is decided by the rows (not by the outline's own tags) asks the outline first:
        # what it then hands out are still the scenarios described by the statement (names by the configured schema)
        from behave.tag_expression import make_tag_expression
        oobj.should_run_with_tags(make_tag_expression(case["tagsel"]))
        res.label("asked-for-tag-selection-before-expansion")
    examples = []
    for ex, fe in zip(outline["ex"], ofacts["examples"]):
        examples.append({"name": ex["name"], "tags": list(ex["tags"]), "cols": list(ex["cols"]),
                         "rows": [(list(r), ln) for r, ln in zip(ex["rows"], fe["row_lines"])]})
    want = expected_scenarios(outline, examples, case.get("schema"))
    got = actual_scenarios(oobj)
    ok = compare(res, got, want, "parsed")
    if template_snapshot(oobj) != before:
        res.fail("C06.template-changed", "outline template changed by building its scenarios: %r -> %r"
                 % (before, template_snapshot(oobj)))
    # -- the public helpers that render ONE outline step for ONE row (a hook that previews the steps of a row):
    #    they return a rendered CLONE; the template and every later expansion stay as they are
    if case.get("preview") and oobj.steps:
        import warnings
        from behave.model import ScenarioOutlineBuilder
        rows = [(ex, r) for ex in oobj.examples if ex.table is not None for r in ex.table.rows]
        if rows:
            ex_obj, row = rows[case["preview"] % len(rows)]
            rowdict = dict(zip(ex_obj.table.headings, row.cells))
            for k, step in enumerate(oobj.steps):
                with warnings.catch_warnings():
                    warnings.simplefilter("ignore")
                    clone = step.set_values(row) if (k + case["preview"]) % 2 else \
                        ScenarioOutlineBuilder.make_step_for_row(step, row)
                if clone is step:
                    res.fail("C06.template-changed", "rendering outline step #%d for one row returned the outline step itself" % k)
                elif clone.name != subst(outline["steps"][k]["name"], rowdict):
                    res.fail("C06.step-name", "[row preview] step #%d rendered as %r, expected %r"
                             % (k, clone.name, subst(outline["steps"][k]["name"], rowdict)))
            res.label("row-preview")
            if template_snapshot(oobj) != before:
                res.fail("C06.template-changed", "rendering the outline steps for one row changed the outline template: "
                         "%r -> %r" % (before, template_snapshot(oobj)))
            for ex_obj2 in oobj.examples:
                if ex_obj2.table is not None:
                    ex_obj2.table.modified = True       # what any table edit does: the rows are expanded again
            compare(res, actual_scenarios(oobj), want, "after a row preview")
    # -- table API edits
    edits = case.get("edits") or []
    applied = 0
    tag_columns = set(c for c in COLS_WIDE + [u"new"] if any((u"<%s>" % c) in t for t in outline["tags"]))

    def safe(col, value):
        # values that end up inside tags stay within the tag-safe alphabet (see ASSUMPTIONS)
        if col in tag_columns:
            return u"".join(ch for ch in value if ch.isalnum() or ch in u"._-= ") or u"v"
        return value
    if edits and outline["ex"]:
        for e in edits:
            idx = e["ex"] % len(examples)
            ex = examples[idx]
            table = oobj.examples[idx].table
            if e["op"] == "add_row":
                cells = e["values"][:len(ex["cols"])]
                while len(cells) < len(ex["cols"]):
                    cells.append(u"")
                cells = [safe(c, v) for c, v in zip(ex["cols"], cells)]
                if len(u"".join(e["values"])) % 2:
                    # the row is handed over as a Row object (rows loaded from a data file: Row.from_dict / Row(...))
                    from behave.model import Row
                    table.add_row(Row(list(table.headings), list(cells), line=None))
                    res.label("table-edits:add_row(Row-object)")
                else:
                    table.add_row(list(cells))
                ex["rows"].append((list(cells), table.rows[-1].line))
                applied += 1
            elif e["op"] == "add_column":
                if e["col"] in ex["cols"]:
                    continue
                vals = [safe(e["col"], v) for v in e["values"][:len(ex["rows"])]]
                table.add_column(e["col"], values=list(vals), default_value=u"dflt")
                ex["cols"].append(e["col"])
                for k, (cells, _ln) in enumerate(ex["rows"]):
                    cells.append(vals[k] if k < len(vals) else u"dflt")
                applied += 1
            elif e["op"] == "ensure_column":
                table.ensure_column_exists(e["col"])
                if e["col"] not in ex["cols"]:
                    ex["cols"].append(e["col"])
                    for cells, _ln in ex["rows"]:
                        cells.append(u"")
                applied += 1
            elif e["op"] == "remove_column":
                if e["col"] not in ex["cols"] or len(ex["cols"]) < 2:
                    continue
                k = ex["cols"].index(e["col"])
                table.remove_column(e["col"])
                del ex["cols"][k]
                for cells, _ln in ex["rows"]:
                    del cells[k]
                applied += 1
            elif e["op"] == "remove_columns":
                # several columns at once; an unknown name among them raises KeyError (caught here, as a hook's
                # error handling would): the columns named before it are gone, those after it are still there
                if e["col"] not in ex["cols"] or len(ex["cols"]) < 2:
                    continue
                ghost_first = e["values"][0] == VALUES[0]
                names = [u"ghost", e["col"]] if ghost_first else [e["col"], u"ghost"]
                if e["values"][1] == VALUES[0]:
                    names = [e["col"]]
                try:
                    table.remove_columns(names)
                except KeyError:
                    res.label("table-edits:remove_columns-partly-done")
                if e["col"] not in table.headings:
                    k = ex["cols"].index(e["col"])
                    del ex["cols"][k]
                    for cells, _ln in ex["rows"]:
                        del cells[k]
                if list(table.headings) != ex["cols"]:
                    res.fail("C06.table-api", "remove_columns(%r) left the headings %r, expected %r"
                             % (names, list(table.headings), ex["cols"]))
                applied += 1
            elif e["op"] == "broken_build":
                # a build that fails half-way (unusable name schema; the error is caught, as behave's hook error
                # handling does) and is repeated after the cause is gone: the second build is complete
                if not applied:
                    continue
                good = oobj.annotation_schema
                oobj.annotation_schema = u"{name} -- {no_such_field}"
                try:
                    oobj.scenarios
                except Exception:   # noqa
                    res.label("table-edits:failed-build-then-rebuilt")
                oobj.annotation_schema = good
        if applied:
            want2 = expected_scenarios(outline, examples, case.get("schema"))
            got = actual_scenarios(oobj)
            ok = compare(res, got, want2, "after table edits") and ok
            if template_snapshot(oobj) != before:
                res.fail("C06.template-changed", "outline template changed by rebuilding its scenarios")
            res.label("table-edits")
    # -- independence (last): mutate one generated scenario, siblings and template stay untouched
    if ok and len(oobj.scenarios) >= 1:
        scs = oobj.scenarios
        victim = scs[0]
        for s in victim.steps:
            s.name = u"MUTATED"
            if s.table is not None:
                for r in s.table.rows:
                    for k in range(len(r.cells)):
                        r.cells[k] = u"MUTATED"
                for k in range(len(s.table.headings)):
                    s.table.headings[k] = u"MUTATED"
        victim.tags.append(u"MUTATED")
        after = actual_scenarios(oobj)
        if after[1:] != got[1:]:
            res.fail("C06.rows-influence-each-other", "mutating scenario #0 changed a sibling")
        if template_snapshot(oobj) != before:
            res.fail("C06.template-shared", "mutating a generated scenario changed the outline template")
    nrows = sum(len(ex["rows"]) for ex in outline["ex"])
    positions = 0
    positions += u"<" in outline["name"]
    positions += any(u"<" in s["name"] for s in outline["steps"])
    positions += any(s.get("text") and u"<" in s["text"] for s in outline["steps"])
    positions += any(s.get("table") and any(u"<" in c for r in s["table"] for c in r) for s in outline["steps"])
    positions += any(u"<" in t for t in outline["tags"])
    orders = set(tuple(ex["cols"]) for ex in outline["ex"])
    res.nontrivial = (nrows >= 2 and positions >= 2) or len(orders) >= 2
    res.label("rows:%d" % min(nrows, 3), "blocks:%d" % min(len(outline["ex"]), 4))
    if case.get("big"):
        res.label("big:" + case["big"])
    if len(orders) >= 2:
        res.label("column-orders-differ")
    if any(u"<" in t for t in outline["tags"]):
        res.label("parametrised-tag")
    if any(s.get("text") and u"<" in s["text"] for s in outline["steps"]):
        res.label("placeholder-in-docstring")
    if any(s.get("table") and any(u"<" in c for r in s["table"] for c in r) for s in outline["steps"]):
        res.label("placeholder-in-table")
    if case.get("schema"):
        res.label("schema")
    return res


def explore(rec):
    quick = rec.tier == "quick"
    rec.hyp("outlines", outline_case(), 24000 if quick else 400000)


def required_labels(tier):
    return ["rows:3", "blocks:0", "blocks:2", "column-orders-differ", "parametrised-tag", "placeholder-in-docstring",
            "placeholder-in-table", "schema", "table-edits", "table-edits:remove_columns-partly-done",
            "table-edits:failed-build-then-rebuilt", "big:wide", "big:tall", "big:sections", "row-preview", "table-edits:add_row(Row-object)", "asked-for-tag-selection-before-expansion"]


KNOWN_PREDICATES = {}
RULE = RULE + " " + ('Three cases in thirteen are big in one dimension: 11-14 columns (c1 ... c12: names that are prefixes of each other), 10-13 rows in one table, 10-12 Examples sections.')
RULE = RULE + " " + ('Table edits include remove_columns() with an unknown name among the names (KeyError caught, partial effect modelled) and a build that fails on an unusable name schema, is caught, and is repeated with the schema restored.')
RULE = RULE + " " + ('Examples blocks carry tags with characters outside the alphabet of rendered tags (region=eu/west, owner=ops@example.com): they reach the rows as written.')
