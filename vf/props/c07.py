# -*- coding: utf-8 -*-
"""C07 -- Tag expressions (v2) mean their Boolean formula; printing preserves meaning."""
from __future__ import annotations

import itertools
import json
import os
import tempfile

from hypothesis import strategies as st

from .. import tagref
from ..core import CaseResult

ID = "C07"
LEVEL = "exploration"
RULE = ("Expression trees (and / or / not over plain tags and * ? [] wildcard patterns) are enumerated completely up to a "
        "node bound (quick: <= 5 nodes over 6 operands plus 6..7 nodes over 3 operands; thorough: <= 7 nodes over 6 "
        "operands) and drawn at random with more operands, n-ary operators and depth <= 5. One case = one tree in one "
        "rendering (with/without '@', redundant or full parentheses, double blanks, leading/trailing blanks; as one text or "
        "as a list of terms which behave ANDs). Oracle per case over ALL 256 subsets of an 8-tag universe (dots, dashes, "
        "'=', pairs differing in letter case): own evaluator on the tree == make_tag_expression(text, V2).check(subset); "
        "str(e) and e.to_string() parse again and have the same complete truth table as e; the empty expression selects "
        "every subset. Placeholder cases build a real Configuration (kwargs or a scratch behave.ini in a scratch cwd) "
        "whose command-line --tags contain '{config.tags}' and compare config.tag_expression with the template formula "
        "in which the configured formula is substituted. Operands that need backslash escapes form separate classes "
        "with their own clause ids. Non-trivial = at least 2 operators or a wildcard operand.")
ASSUMPTIONS = [
    "extra white space is U+0020 only (a TAB is turned into an operand by the third-party tokenizer; not behave's code)",
    "when '{config.tags}' is used some tag expression is configured (substituting the empty expression into "
    "'x and {config.tags}' is a syntax error in behave; the documentation only shows the placeholder with configured tags)",
    "tag names contain no '@', no blank and are not the words and/or/not; wildcard patterns have well-formed [] classes",
    "the dialect is fixed to v2 (tag_expression_protocol=v2); auto-detection is the subject of C08",
]
SIMPLIFY = {}
WATCHDOG_S = {"quick": 900, "thorough": 4 * 3600}

def _other_operands_parser():
    from behave.tag_expression.parser import TagExpressionParser
    from behave.tag_expression.model import Literal

    class OtherOperandsParser(TagExpressionParser):
        @classmethod
        def make_operand(cls, text):
            return Literal(text.lower() + u"!")
    return OtherOperandsParser


class _Lazy(object):
    def __getattr__(self, name):
        cls = _other_operands_parser()
        globals()["_OtherOperandsParser"] = cls
        return getattr(cls, name)


_OtherOperandsParser = _Lazy()


# ---------------------------------------------------------------------------
# universe
# ---------------------------------------------------------------------------
class Universe(object):
    """A tag universe with all its subsets and (cached) own truth tables."""

    def __init__(self, tags):
        self.tags = list(tags)
        self.subsets = [[t for i, t in enumerate(self.tags) if mask >> i & 1] for mask in range(1 << len(self.tags))]
        self._sets = [frozenset(s) for s in self.subsets]
        self._cache = {}

    def expected(self, ast):
        key = json.dumps(ast)
        table = self._cache.get(key)
        if table is None:
            if len(self._cache) > 20000:
                self._cache.clear()
            table = self._cache[key] = tuple(tagref.evaluate(ast, s) for s in self._sets)
        return table

    def observed(self, expr):
        """The tags are handed over in the ways callers do: a fresh list per question, ONE list object that is
        refilled in place between the questions (a reused buffer), or other collections / one-shot iterators."""
        mode = len(str(expr)) % 4
        if mode == 1:
            buf = []
            out = []
            for s in self.subsets:
                buf[:] = s
                out.append(bool(expr.check(buf)))
            return tuple(out)
        if mode == 2:
            makers = (list, tuple, set, frozenset, iter, lambda s: (t for t in s))
            return tuple(bool(expr.check(makers[i % len(makers)](s))) for i, s in enumerate(self.subsets))
        return tuple(bool(expr.check(list(s))) for s in self.subsets)

    def first_diff(self, want, got):
        for s, w, g in zip(self.subsets, want, got):
            if w != g:
                return s, w, g
        return None


UNIVERSE = ["a", "b", "c", "a.x", "A.x", "ab", "bx", "k-v=1"]
U = Universe(UNIVERSE)
SUBSETS = U.subsets
# tag names that CONTAIN an operator word as a '.', '-', '=' delimited part or in another letter case
# (ticket keys such as @OR-1234, @NOT.ready, os=Not): operands, never operators
KW_UNIVERSE = ["OR-1", "or-1", "NOT.x", "not.x", "k=And", "k=and", "a", "Or"]
U_KW = Universe(KW_UNIVERSE)
# --wip adds the term @wip to the command-line terms
U_WIP = Universe(["a", "b", "c", "a.x", "ab", "bx", "wip", "k-v=1"])
UNIVERSES = {"std": U, "kw": U_KW, "wip": U_WIP}
KW_OPERANDS = [["tag", t] for t in KW_UNIVERSE] + [["tag", "AND"], ["tag", "Not"], ["tag", "x-and-y"], ["tag", "AND-OR"],
               ["glob", "OR-*"], ["glob", "or-*"], ["glob", "NOT.?"], ["glob", "k=A*"], ["glob", "*=and"], ["glob", "O?"],
               ["glob", "*-1"], ["glob", "[Nn]ot.x"]]

ENUM_OPERANDS = [["tag", "a"], ["tag", "b"], ["tag", "c"], ["glob", "a.*"], ["glob", "?b"], ["glob", "[ab]x"]]
ENUM_OPERANDS_SMALL = [["tag", "a"], ["glob", "a.*"], ["glob", "?b"]]
RANDOM_OPERANDS = ENUM_OPERANDS + [
    ["tag", "a.x"], ["tag", "A.x"], ["tag", "ab"], ["tag", "bx"], ["tag", "Bx"], ["tag", "k-v=1"], ["tag", "K-V=1"],
    ["tag", "order"], ["tag", "nota"],
    ["glob", "A.*"], ["glob", "*.x"], ["glob", "*=1"], ["glob", "k-*"], ["glob", "?-v=?"], ["glob", "*x"],
    ["glob", "[!a]b"], ["glob", "[A-B].x"], ["glob", "??"], ["glob", "*"], ["glob", "[a-c]"], ["glob", "B*"],
    ["glob", "[ab]*"], ["glob", "*.[xX]"], ["glob", "a[.b]*"], ["glob", "*[bx]"], ["glob", "[!a]*"], ["glob", "*[-=]*"],
]
ESCAPED_OPERANDS = [["tag", "a"], ["tag", "a("], ["tag", "(b)"], ["tag", "a\\b"],
                    ["glob", "a(*"], ["glob", "*)"], ["glob", "a.*"]]
PLACEHOLDER = "{config.tags}"
_SENTINEL = "CFG0PLACEHOLDER0"


def expected_table(ast):
    return U.expected(ast)


def behave_table(expr):
    return U.observed(expr)


def first_diff(want, got):
    return U.first_diff(want, got)


# ---------------------------------------------------------------------------
# classification
# ---------------------------------------------------------------------------
def count_ops(ast):
    if ast[0] in ("tag", "glob", "true", "cfg"):
        return 0
    return 1 + sum(count_ops(x) for x in ast[1:])


def depth(ast):
    if ast[0] in ("tag", "glob", "true", "cfg"):
        return 0
    return 1 + max(depth(x) for x in ast[1:])


def escape_class(ast):
    """'' for ordinary operands; else the class of operands that must be written with backslash escapes."""
    ops = tagref.operands(ast)
    if any(o[0] == "glob" and tagref.needs_escape(o[1]) for o in ops):
        return "escaped-wildcard"
    if any(o[0] == "tag" and tagref.needs_escape(o[1]) for o in ops):
        return "escaped-literal"
    return ""


def clause(klass, what):
    return "C07.%s.%s" % (klass, what) if klass else "C07.%s" % what


def common_labels(res, ast, variant, form):
    ops = tagref.operands(ast)
    globs = [o[1] for o in ops if o[0] == "glob"]
    nops = count_ops(ast)
    res.nontrivial = nops >= 2 or bool(globs)
    res.label("form:" + form, "depth:%d" % min(depth(ast), 5))
    if globs:
        res.label("wildcard")
        if any(tagref.glob_match(g, "a.x") != tagref.glob_match(g, "A.x") for g in globs):
            res.label("wildcard:case-pair-distinguished")
    if any(o[0] == "tag" and ("." in o[1] or "-" in o[1] or "=" in o[1]) for o in ops):
        res.label("literal:dot-dash-eq")
    if variant & 1:
        res.label("rendering:at")
    if variant & (2 | 16):
        res.label("rendering:extra-parens")
    if variant & 32 and form == "list" and ast[0] == "and" and any(x[0] == "or" for x in ast[1:]):
        res.label("rendering:term-of-parenthesised-groups")
    if variant & (4 | 8):
        res.label("rendering:extra-blanks")
    if nops >= 2:
        res.label("operators>=2")
    if _has(ast, "not"):
        res.label("negation")


def _has(ast, op):
    if ast[0] == op:
        return True
    if ast[0] in ("and", "or", "not"):
        return any(_has(x, op) for x in ast[1:])
    return False


def render(ast, variant, form):
    if form == "list":
        return tagref.render_v2_terms(ast, variant)
    return tagref.render_v2(ast, variant)


def valid_ast(ast, leaves=("tag", "glob")):
    if not isinstance(ast, list) or not ast or not isinstance(ast[0], str):
        return False
    if ast[0] in leaves:
        return len(ast) == (1 if ast[0] in ("true", "cfg") else 2) and all(isinstance(x, str) and x for x in ast[1:])
    if ast[0] == "not":
        return len(ast) == 2 and valid_ast(ast[1], leaves)
    if ast[0] in ("and", "or"):
        return len(ast) >= 3 and all(valid_ast(x, leaves) for x in ast[1:])
    return False


def valid_case(case):
    """Used by the shrinker: structural well-formedness of a (reduced) case."""
    try:
        if case["kind"] == "expr":
            return ((case["ast"] == ["true"] or valid_ast(case["ast"])) and case["form"] in ("text", "list")
                    and case.get("u", "std") in UNIVERSES)
        if case["kind"] == "cmdline":
            return (case["ast"] == ["true"] or valid_ast(case["ast"])) and case.get("wip") in (None, "first", "last")
        if case["kind"] == "placeholder-unconfigured":
            t = case["template"]
            return valid_ast(t, ("tag", "glob", "cfg")) and _count_cfg(t) >= 1 and case["tform"] in ("text", "list")
        if case["kind"] == "run-protocol":
            return case["protocol"] in PROTOCOL_WORDS and case.get("tags") in (None, "a,b", "a")
        if case["kind"] == "glob":
            return isinstance(case.get("pattern"), str) and bool(case["pattern"])
        if case["kind"] == "placeholder":
            t = case["template"]
            return (valid_ast(case["config"]) and case["via"] in VIAS
                    and (t is None or (valid_ast(t, ("tag", "glob", "cfg")) and _count_cfg(t) >= 1)))
    except (KeyError, TypeError, IndexError):
        return False
    return False


# ---------------------------------------------------------------------------
# check
# ---------------------------------------------------------------------------
def check(case):
    kind = case["kind"]
    if kind == "expr":
        return check_expr(case)
    if kind == "placeholder":
        return check_placeholder(case)
    if kind == "glob":
        return check_glob(case)
    if kind == "cmdline":
        return check_cmdline(case)
    if kind == "run-protocol":
        return check_run_protocol(case)
    if kind == "placeholder-unconfigured":
        return check_placeholder_unconfigured(case)
    raise ValueError(kind)


def check_placeholder_unconfigured(case):
    """The placeholder is used although no default tags are configured (the configured expression is the empty one,
    which selects everything).  behave may refuse the expression; when it accepts it, the result denotes the template
    with 'true' in place of the placeholder."""
    from behave.configuration import Configuration
    from behave.tag_expression import TagExpressionProtocol
    from behave.tag_expression.parser import TagExpressionError
    res = CaseResult()
    template, tv, tform = case["template"], case["tv"], case["tform"]
    tag_args = render_template(template, tv, tform)
    final = substitute(template, ["true"])
    res.nontrivial = True
    res.evals = len(SUBSETS)
    res.label("placeholder-unconfigured")
    args = ["--tags=" + t for t in tag_args]
    try:
        try:
            config = Configuration(list(args), load_config=False, tag_expression_protocol=TagExpressionProtocol.V2)
        except TagExpressionError:
            res.label("placeholder-unconfigured:refused")
            return res
        res.label("placeholder-unconfigured:accepted")
        want = expected_table(final)
        got = behave_table(config.tag_expression)
        diff = first_diff(want, got)
        if diff:
            res.fail("C07.placeholder.unconfigured", "no configured tags, command line %r: accepted as %r; for tags %s the "
                     "template with an always-true placeholder is %s, check() says %s"
                     % (args, config.tag_expression, diff[0], diff[1], diff[2]), args=args)
    finally:
        TagExpressionProtocol.use(TagExpressionProtocol.DEFAULT)
    return res


def placeholder_unconfigured_enum():
    for i, template in enumerate(FIXED_TEMPLATES + UNCONFIGURED_TEMPLATES):
        for tv in (0, 1, 4, 16):
            for tform in ("text", "list"):
                if tform == "list" and template[0] != "and":
                    continue
                yield {"kind": "placeholder-unconfigured", "template": template, "tv": tv, "tform": tform}


UNCONFIGURED_TEMPLATES = [
    ["and", ["not", ["cfg"]], ["tag", "a"]],
    ["and", ["tag", "a"], ["not", ["cfg"]]],
    ["or", ["and", ["not", ["cfg"]], ["tag", "a"]], ["tag", "b"]],
    ["and", ["cfg"], ["tag", "a"]],
    ["and", ["tag", "a"], ["cfg"]],
    ["and", ["tag", "a"], ["cfg"], ["tag", "b"]],
    ["or", ["cfg"], ["tag", "a"]],
    ["not", ["and", ["cfg"], ["tag", "a"]]],
    ["and", ["not", ["cfg"]], ["not", ["tag", "a"]]],
    ["cfg"],
]


PROTOCOL_WORDS = {"v1": "V1", "v2": "V2", "strict": "V2", "auto_detect": "AUTO_DETECT", "V2": "V2", "Strict": "V2",
                  None: "AUTO_DETECT"}


def check_run_protocol(case):
    """`python -m behave` with tag_expression_protocol in behave.ini: the dialect the configuration selected is the
    one in force for the whole run -- the expression of --tags is read with it, and expressions that hooks build with
    make_tag_expression() (no protocol given) are read with it too."""
    from .. import disk
    from ..program import normalize
    import copy
    import json
    import subprocess
    import sys
    res = CaseResult()
    word, tags = case["protocol"], case.get("tags")
    prog = {"features": [{"tags": [], "items": [
        {"k": "s", "tags": ["a"], "steps": [{"kw": "Given", "o": "pass"}]},
        {"k": "s", "tags": ["b"], "steps": [{"kw": "Given", "o": "pass"}]},
        {"k": "s", "tags": ["a,b"], "steps": [{"kw": "Given", "o": "pass"}]}]}], "probe_protocol": True}
    normalize(prog)
    ini = u"[behave]\n" + (u"tag_expression_protocol = %s\n" % word if word else u"")
    proj = disk.Project(prog, extra_files={"../behave.ini": ini})
    try:
        args = ["--tags=%s" % tags] if tags else []
        p = subprocess.run([sys.executable, "-m", "behave", "-f", "plain", "--no-color"] + args, cwd=proj.root,
                           env=disk.child_env(proj.root), stdout=subprocess.PIPE, stderr=subprocess.PIPE, timeout=120)
        log = {}
        if os.path.exists(os.path.join(proj.root, "vf_log.json")):
            with open(os.path.join(proj.root, "vf_log.json")) as f:
                log = json.load(f)
    finally:
        proj.close()
    want = PROTOCOL_WORDS[word]
    res.nontrivial = True
    res.label("run-protocol", "run-protocol:" + want, "run-protocol:tags" if tags else "run-protocol:no-tags")
    notes = [n for n in log.get("notes", []) if n.get("kind") == "protocol"]
    if p.returncode != 0 or not notes:
        res.fail("C07.run-protocol.run", "behave.ini %r, args %r: exit status %d, %d observations; output %r"
                 % (ini, args, p.returncode, len(notes), (p.stdout + p.stderr).decode("utf-8", "replace")[-300:]))
        return res
    # 'a,b' is one tag name in the new dialect and the alternative a-or-b in the old one
    want_match = {"V1": True, "V2": False, "AUTO_DETECT": True}[want]
    for n in notes:
        if n["value"] != want or n["a,b matches [a]"] != want_match:
            res.fail("C07.run-protocol.in-force", "behave.ini %r, args %r: in %s the dialect in force is %s (configured: %s); "
                     "make_tag_expression('a,b') matches the tags [a]: %s (expected %s)"
                     % (ini, args, n["hook"], n["value"], want, n["a,b matches [a]"], want_match))
            break
    if tags == "a,b":
        ran = sorted(set(name for name, _uid in log.get("calls", [])))
        want_ran = ["S2"] if want == "V2" else ["S0", "S1"]
        if ran != want_ran:
            res.fail("C07.run-protocol.selection", "behave.ini %r, --tags=a,b: scenarios %r ran, expected %r"
                     % (ini, ran, want_ran))
    return res


def run_protocol_enum():
    for word in (None, "v1", "v2", "strict", "auto_detect", "V2", "Strict"):
        for tags in (None, "a,b", "a"):
            yield {"kind": "run-protocol", "protocol": word, "tags": tags}


GLOB_TAG_ALPHABET = "ab."


def glob_tags():
    import itertools
    tags = []
    for n in range(1, 4):
        for tup in itertools.product(GLOB_TAG_ALPHABET, repeat=n):
            tags.append("".join(tup))
    return tags


def check_glob(case):
    """One wildcard pattern as the whole expression, evaluated on every single-tag set over a small
    alphabet (complete): a wildcard operand is true iff some tag matches the pattern as a whole."""
    from behave.tag_expression import make_tag_expression, TagExpressionProtocol
    from ..core import CaseResult
    res = CaseResult()
    pattern = case["pattern"]
    try:
        expr = make_tag_expression(pattern, TagExpressionProtocol.V2)
    finally:
        TagExpressionProtocol.use(TagExpressionProtocol.DEFAULT)
    tags = glob_tags()
    res.evals = len(tags)
    for tag in tags:
        want = tagref.glob_match(pattern, tag)
        got = bool(expr.check([tag]))
        if got != want:
            res.fail("C07.wildcard.match", "pattern %r on tag %r: behave says %s, a whole-tag wildcard match is %s"
                     % (pattern, tag, got, want))
            break
    res.label("glob-edge")
    if "[" in pattern:
        res.label("glob-edge:character-class")
        if "*" in pattern:
            res.label("glob-edge:character-class-next-to-star")
    res.nontrivial = pattern.count("*") + pattern.count("?") + pattern.count("[") >= 1 and len(pattern) >= 2
    if any(pattern.startswith(c) and pattern.endswith(c) for c in "ab.") and "*" in pattern:
        res.label("glob-edge:overlap-candidate")
    return res


def glob_cases(max_len=4):
    import itertools
    for n in range(1, max_len + 1):
        for tup in itertools.product("ab.*?", repeat=n):
            pat = "".join(tup)
            if "*" in pat or "?" in pat:
                yield {"kind": "glob", "pattern": pat}


def glob_class_cases(max_tokens=3):
    """Patterns with a [seq] / [!seq] / [a-b] character class next to literals, * and ? (complete up to max_tokens)."""
    import itertools
    tokens = ["a", "b", ".", "*", "?", "[ab]", "[!a]", "[a-b]", "[.b]"]
    for n in range(1, max_tokens + 1):
        for tup in itertools.product(tokens, repeat=n):
            if any(t.startswith("[") for t in tup):
                yield {"kind": "glob", "pattern": "".join(tup)}


def check_expr(case):
    from behave.tag_expression import TagExpressionProtocol, make_tag_expression
    from behave.tag_expression.parser import TagExpressionError
    res = CaseResult()
    ast, variant, form = case["ast"], case["v"], case["form"]
    klass = escape_class(ast)
    arg = render(ast, variant, form)
    uni = UNIVERSES[case.get("u", "std")]
    want = uni.expected(ast)
    res.evals = len(uni.subsets)
    common_labels(res, ast, variant, form)
    if case.get("u") == "kw":
        res.label("operator-like-tag-names")
    if klass:
        res.label(klass)
    if ast == ["true"]:
        res.label("empty")
    v2 = TagExpressionProtocol.V2
    if len(str(arg)) % 3 == 0:
        # a user-defined parser (subclass of TagExpressionParser with its own operands: a case-insensitive report filter)
        # has read the same text earlier in this process: behave's own reading of it is not affected
        try:
            _OtherOperandsParser.parse(arg if isinstance(arg, str) else u" and ".join(u"(%s)" % a for a in arg))
        except Exception:   # noqa: what the user's parser makes of it is not the subject
            pass
        res.label("a-user-defined-parser-subclass-read-the-text-before")
    try:
        expr = make_tag_expression(arg, v2)
    except TagExpressionError as e:
        res.fail(clause(klass, "rejected"), "well-formed expression %r is rejected: %s" % (arg, _one_line(e)), text=arg)
        return res
    got = uni.observed(expr)
    diff = uni.first_diff(want, got)
    if diff:
        what = "empty-selects-all" if ast == ["true"] else "truth-table"
        res.fail(clause(klass, what), "%r parsed as %r: for tags %s the formula is %s, check() says %s"
                 % (arg, expr, diff[0], diff[1], diff[2]), text=arg)
    for name, printed in (("str", str(expr)), ("to_string", expr.to_string())):
        try:
            again = make_tag_expression(printed, v2)
        except TagExpressionError as e:
            res.fail(clause(klass, name + "-reparse"),
                     "%s() of the expression parsed from %r is %r which does not parse: %s"
                     % (name, arg, printed, _one_line(e)), text=arg, printed=printed)
            break       # to_string() is str() plus cosmetics: report the first broken one only
        diff = uni.first_diff(got, uni.observed(again))
        if diff:
            res.fail(clause(klass, name + "-reparse"),
                     "%s() of the expression parsed from %r is %r which parses as %r: for tags %s the original "
                     "says %s, the re-parsed one %s" % (name, arg, printed, again, diff[0], diff[1], diff[2]),
                     text=arg, printed=printed)
            break
    return res


def _one_line(e):
    return " / ".join(str(e).splitlines())[:300]


# -- placeholder -------------------------------------------------------------
def substitute(template, config_ast):
    if template[0] == "cfg":
        return config_ast
    if template[0] in ("tag", "glob", "true"):
        return template
    return [template[0]] + [substitute(x, config_ast) for x in template[1:]]


def _with_sentinel(template):
    return substitute(template, ["tag", _SENTINEL])


def render_template(template, variant, form):
    """Command-line values of --tags (a list: one per option occurrence)."""
    if template is None:
        return []
    ast = _with_sentinel(template)
    parts = render(ast, variant, form)
    if form != "list":
        parts = [parts]
    return [p.replace("@" + _SENTINEL, PLACEHOLDER).replace(_SENTINEL, PLACEHOLDER) for p in parts]


def check_cmdline(case):
    """The command-line route: every term is one --tags option of a real Configuration (protocol v2);
    --wip adds the term @wip.  All terms are AND-ed, each term keeps its own meaning."""
    from behave.configuration import Configuration
    from behave.tag_expression import TagExpressionProtocol
    from behave.tag_expression.parser import TagExpressionError
    res = CaseResult()
    ast, variant, wip = case["ast"], case["v"], case.get("wip")
    terms = tagref.render_v2_terms(ast, variant)
    args = ["--tags=" + t for t in terms]
    final = ast
    if wip:
        args = (["--wip"] + args) if wip == "first" else (args + ["--wip"])
        final = ["and", ast, ["tag", "wip"]] if ast != ["true"] else ["tag", "wip"]
    uni = U_WIP
    want = uni.expected(final)
    res.evals = len(uni.subsets)
    common_labels(res, ast, variant, "list")
    res.label("command-line", "command-line:terms=%d" % min(len(terms), 3))
    if wip:
        res.label("command-line:--wip")
    try:
        try:
            config = Configuration(list(args), load_config=False, tag_expression_protocol=TagExpressionProtocol.V2)
        except TagExpressionError as e:
            res.fail("C07.command-line.rejected", "command line %r is rejected: %s" % (args, _one_line(e)), args=args)
            return res
        got = uni.observed(config.tag_expression)
        diff = uni.first_diff(want, got)
        if diff:
            res.fail("C07.command-line.truth-table",
                     "command line %r gives %r: for tags %s the AND of the terms%s is %s, check() says %s"
                     % (args, config.tag_expression, diff[0], " and @wip" if wip else "", diff[1], diff[2]), args=args)
    finally:
        TagExpressionProtocol.use(TagExpressionProtocol.DEFAULT)
    return res


def check_placeholder(case):
    from behave.configuration import Configuration
    from behave.tag_expression import TagExpressionProtocol
    from behave.tag_expression.parser import TagExpressionError
    res = CaseResult()
    cfg_ast, cv, via = case["config"], case["cv"], case["via"]
    template, tv, tform = case["template"], case["tv"], case["tform"]
    klass = escape_class(cfg_ast) or (escape_class(_with_sentinel(template)) if template else "")
    terms = tagref.render_v2_terms(cfg_ast, cv)
    tag_args = render_template(template, tv, tform)
    final = substitute(template, cfg_ast) if template is not None else cfg_ast
    want = expected_table(final)
    res.evals = len(SUBSETS)
    common_labels(res, final, tv, tform)
    res.nontrivial = True
    res.label("placeholder", "placeholder:" + via,
              "placeholder:no-command-line-tags" if template is None else "placeholder:substituted")
    if klass:
        res.label(klass)
    args = ["--tags=" + t for t in tag_args]
    kwargs = {}
    use_file = via.split(":", 1)[0] in ("file", "toml", "interp")
    old_cwd, old_home = os.getcwd(), os.environ.get("HOME")
    scratch = None
    try:
        if use_file:
            scratch = tempfile.TemporaryDirectory(prefix="vf-c07-")
            root = scratch.name
            os.makedirs(os.path.join(root, "home"))
            os.makedirs(os.path.join(root, "work"))
            kind, key = via.split(":", 1)       # key: "tags" | "default_tags"
            if kind == "toml":
                # the same option in pyproject.toml ([tool.behave], list of terms)
                import json as _json
                lines = ["[tool.behave]", 'tag_expression_protocol = "v2"',
                         "%s = [%s]" % (key, ", ".join(_json.dumps(t) for t in terms))]
                fname = "pyproject.toml"
            elif kind == "interp":
                # ini interpolation: the expression is defined once in [DEFAULT] and referred to with %(name)s
                lines = ["[DEFAULT]", "vf_expr = %s" % tagref.render_v2(cfg_ast, cv).strip(),
                         "[behave]", "tag_expression_protocol = v2", "%s = %%(vf_expr)s" % key]
                fname = "behave.ini"
            else:
                lines = ["[behave]", "tag_expression_protocol = v2"]
                lines.append("%s = %s" % (key, ("\n    ".join(terms))))
                fname = "behave.ini"
            with open(os.path.join(root, "work", fname), "w", encoding="utf-8") as f:
                f.write("\n".join(lines) + "\n")
            os.environ["HOME"] = os.path.join(root, "home")
            os.chdir(os.path.join(root, "work"))
        else:
            kwargs["tag_expression_protocol"] = TagExpressionProtocol.V2
            if via == "kw:config_tags":
                kwargs["config_tags"] = list(terms)
            elif via == "kw:default_tags":
                kwargs["default_tags"] = list(terms)
            elif via == "kw:default_tags-text":
                kwargs["default_tags"] = tagref.render_v2(cfg_ast, cv)
            else:
                raise ValueError(via)
        shown = "config %s=%r, command line %r" % (via, kwargs.get("config_tags", kwargs.get("default_tags", terms)),
                                                   args)
        try:
            config = Configuration(list(args), load_config=use_file, **kwargs)
        except TagExpressionError as e:
            res.fail(clause(klass, "placeholder"), "%s: rejected: %s" % (shown, _one_line(e)),
                     config=terms, args=args)
            return res
        got = behave_table(config.tag_expression)
        diff = first_diff(want, got)
        if diff:
            res.fail(clause(klass, "placeholder"),
                     "%s: resulting expression %r; for tags %s the substituted formula is %s, check() says %s"
                     % (shown, config.tag_expression, diff[0], diff[1], diff[2]), config=terms, args=args)
        elif case["cv"] % 2 == 0:
            # history: another configuration object (old dialect) is built in the same process, then this one reads
            # its tags again (what a hook does with config.setup_tag_expression()): still its own dialect
            res.label("placeholder:re-read-after-another-configuration")
            Configuration([], load_config=False, tag_expression_protocol=TagExpressionProtocol.V1)
            try:
                config.setup_tag_expression()
                diff = first_diff(want, behave_table(config.tag_expression))
                if diff:
                    res.fail(clause(klass, "placeholder-reread"),
                             "%s: after another Configuration (dialect v1) was built, setup_tag_expression() gives %r; "
                             "for tags %s the substituted formula is %s, check() says %s"
                             % (shown, config.tag_expression, diff[0], diff[1], diff[2]), config=terms, args=args)
            except TagExpressionError as e:
                res.fail(clause(klass, "placeholder-reread"), "%s: after another Configuration (dialect v1) was built, "
                         "setup_tag_expression() rejects the tags: %s" % (shown, _one_line(e)), config=terms, args=args)
    finally:
        os.chdir(old_cwd)
        if old_home is None:
            os.environ.pop("HOME", None)
        else:
            os.environ["HOME"] = old_home
        TagExpressionProtocol.use(TagExpressionProtocol.DEFAULT)
        if scratch is not None:
            scratch.cleanup()
    return res


# ---------------------------------------------------------------------------
# generation
# ---------------------------------------------------------------------------
def trees_by_size(operands, max_nodes, max_depth=99):
    """All binary and/or, unary not trees over the operands: {nodes: [(ast, depth)]}."""
    by = {1: [(list(o), 0) for o in operands]}
    for n in range(2, max_nodes + 1):
        out = []
        for x, d in by[n - 1]:
            if d + 1 <= max_depth:
                out.append((["not", x], d + 1))
        for i in range(1, n - 1):
            j = n - 1 - i
            if j < 1:
                continue
            for (l, dl), (r, dr) in itertools.product(by[i], by[j]):
                d = max(dl, dr) + 1
                if d <= max_depth:
                    out.append((["and", l, r], d))
                    out.append((["or", l, r], d))
        by[n] = out
    return by


def enumerate_trees(operands, min_nodes, max_nodes, max_depth=99):
    by = trees_by_size(operands, max_nodes, max_depth)
    for n in range(min_nodes, max_nodes + 1):
        for ast, _d in by[n]:
            yield ast


TEXT_VARIANTS = [0, 1, 2, 4, 7, 8, 16, 21, 32]
LIST_VARIANTS = [0, 5, 16, 32]


def expr_cases(asts, text_variants=TEXT_VARIANTS, list_variants=LIST_VARIANTS):
    for ast in asts:
        for v in text_variants:
            yield {"kind": "expr", "ast": ast, "v": v, "form": "text"}
        for v in list_variants:
            yield {"kind": "expr", "ast": ast, "v": v, "form": "list"}


def empty_cases():
    for v in (0, 4, 8, 12):
        yield {"kind": "expr", "ast": ["true"], "v": v, "form": "text"}
    yield {"kind": "expr", "ast": ["true"], "v": 0, "form": "list"}


def ast_st(operands, max_leaves=10):
    leaf = st.sampled_from(operands)

    def extend(children):
        return st.one_of(
            st.builds(lambda x: ["not", x], children),
            st.builds(lambda op, xs: [op] + xs, st.sampled_from(["and", "or"]),
                      st.lists(children, min_size=2, max_size=4)),
            st.builds(lambda op, xs: [op] + xs, st.sampled_from(["and", "or"]),
                      st.lists(children, min_size=2, max_size=2)),
        )
    return st.recursive(leaf, extend, max_leaves=max_leaves).filter(lambda a: depth(a) <= 5)


VARIANT_ST = st.integers(0, 63)


def random_expr_st(operands=None):
    return st.builds(lambda a, v, f: {"kind": "expr", "ast": a, "v": v, "form": f},
                     ast_st(operands or RANDOM_OPERANDS), VARIANT_ST, st.sampled_from(["text", "text", "list"]))


def kw_expr_st():
    return st.builds(lambda a, v, f: {"kind": "expr", "ast": a, "v": v, "form": f, "u": "kw"},
                     ast_st(KW_OPERANDS, max_leaves=5), VARIANT_ST, st.sampled_from(["text", "text", "list"]))


def cmdline_st():
    return st.builds(lambda a, v, w: {"kind": "cmdline", "ast": a, "v": v, "wip": w},
                     ast_st(ENUM_OPERANDS + [["tag", "wip"], ["tag", "k-v=1"]], max_leaves=6), VARIANT_ST,
                     st.sampled_from([None, "first", "last", "last"]))


def cmdline_enum():
    for ast in enumerate_trees(ENUM_OPERANDS_SMALL + [["tag", "wip"]], 1, 4):
        for wip in (None, "first", "last"):
            yield {"kind": "cmdline", "ast": ast, "v": 0, "wip": wip}
    for wip in ("first", "last"):
        yield {"kind": "cmdline", "ast": ["true"], "v": 0, "wip": wip}


def kw_enum():
    for ast in enumerate_trees(KW_OPERANDS, 1, 3):
        for case in expr_cases([ast], text_variants=[0, 1], list_variants=[0]):
            case["u"] = "kw"
            yield case


VIAS = ["kw:config_tags", "kw:default_tags", "kw:default_tags-text", "file:tags", "file:default_tags",
        "toml:tags", "toml:default_tags", "interp:tags"]


def template_st(operands):
    """Trees with one or two placeholder leaves."""
    leaf = st.one_of(st.sampled_from(operands), st.just(["cfg"]))
    tree = ast_st_from_leaf(leaf)
    return tree.filter(lambda a: 1 <= _count_cfg(a) <= 2)


def ast_st_from_leaf(leaf, max_leaves=5):
    def extend(children):
        return st.one_of(
            st.builds(lambda x: ["not", x], children),
            st.builds(lambda op, xs: [op] + xs, st.sampled_from(["and", "or"]),
                      st.lists(children, min_size=2, max_size=3)),
        )
    return st.recursive(leaf, extend, max_leaves=max_leaves)


def _count_cfg(ast):
    if ast[0] == "cfg":
        return 1
    if ast[0] in ("tag", "glob", "true"):
        return 0
    return sum(_count_cfg(x) for x in ast[1:])


FIXED_TEMPLATES = [
    ["cfg"],
    ["and", ["tag", "a"], ["cfg"]],
    ["and", ["cfg"], ["tag", "a"]],
    ["or", ["tag", "a"], ["cfg"]],
    ["not", ["cfg"]],
    ["and", ["or", ["tag", "a"], ["glob", "?b"]], ["cfg"]],
    ["or", ["and", ["tag", "c"], ["cfg"]], ["not", ["cfg"]]],
]


def placeholder_enum(operands, max_nodes):
    """Every small configured tree x every fixed template (and no command-line tags) x every way to configure."""
    index = 0
    for cfg in enumerate_trees(operands, 1, max_nodes):
        for t_index, template in enumerate([None] + FIXED_TEMPLATES):
            via = VIAS[index % len(VIAS)]
            index += 1
            yield {"kind": "placeholder", "config": cfg, "cv": [0, 1, 4, 16][index % 4], "via": via,
                   "template": template, "tv": [0, 1, 5, 16, 2][(index // 4) % 5],
                   "tform": "list" if (t_index % 2 and template and template[0] == "and") else "text"}


def placeholder_st(operands=None):
    operands = operands or RANDOM_OPERANDS
    return st.builds(
        lambda cfg, cv, via, template, tv, tform: {"kind": "placeholder", "config": cfg, "cv": cv, "via": via,
                                                   "template": template, "tv": tv, "tform": tform},
        ast_st(operands, max_leaves=5), st.sampled_from([0, 1, 2, 4, 5, 16, 17]), st.sampled_from(VIAS),
        st.one_of(st.none(), template_st(operands), template_st(operands), template_st(operands)),
        st.sampled_from([0, 1, 2, 4, 5, 16, 17]),
        st.sampled_from(["text", "list"]))


def escaped_cases():
    for ast in enumerate_trees(ESCAPED_OPERANDS, 1, 3):
        if not escape_class(ast):
            continue
        for v, form in ((0, "text"), (5, "text"), (16, "list")):
            yield {"kind": "expr", "ast": ast, "v": v, "form": form}
    for cfg in enumerate_trees(ESCAPED_OPERANDS, 1, 2):
        if not escape_class(cfg):
            continue
        for i, template in enumerate(FIXED_TEMPLATES[:3]):
            yield {"kind": "placeholder", "config": cfg, "cv": 0, "via": VIAS[i % len(VIAS)],
                   "template": template, "tv": 0, "tform": "text"}


def explore(rec):
    quick = rec.tier == "quick"
    rec.enum("empty-expression", empty_cases())
    if quick:
        rec.enum("trees<=5-nodes/6-operands/all-renderings", expr_cases(enumerate_trees(ENUM_OPERANDS, 1, 5)))
        rec.enum("trees-6..7-nodes/3-operands", expr_cases(enumerate_trees(ENUM_OPERANDS_SMALL, 6, 7),
                                                           text_variants=[0, 21], list_variants=[5]))
    else:
        rec.enum("trees<=7-nodes/6-operands/all-renderings", expr_cases(enumerate_trees(ENUM_OPERANDS, 1, 7)))
    rec.hyp("random-trees", random_expr_st(), 12000 if quick else 400000)
    rec.enum("placeholder/small-configs-x-templates", placeholder_enum(ENUM_OPERANDS, 3 if quick else 4))
    rec.hyp("placeholder/random", placeholder_st(), 6000 if quick else 120000)
    rec.enum("placeholder/no-configured-tags/fixed-templates", placeholder_unconfigured_enum())
    rec.hyp("placeholder/no-configured-tags/random", st.builds(
        lambda t, tv, tf: {"kind": "placeholder-unconfigured", "template": t, "tv": tv, "tform": tf},
        template_st(RANDOM_OPERANDS), st.sampled_from([0, 1, 2, 4, 5, 16, 17]), st.sampled_from(["text", "list"])),
        1500 if quick else 30000)
    rec.enum("escaped-operands", escaped_cases())
    rec.enum("command-line/trees<=4-nodes/with-and-without---wip", cmdline_enum())
    rec.hyp("command-line/random", cmdline_st(), 4000 if quick else 100000)
    rec.enum("configured dialect in force during the run (python -m behave)", run_protocol_enum())
    rec.enum("operator-like-tag-names/trees<=3-nodes", kw_enum())
    rec.hyp("operator-like-tag-names/random", kw_expr_st(), 4000 if quick else 100000)
    rec.enum("wildcard-patterns<=%d x all tags<=3" % (4 if quick else 5), glob_cases(4 if quick else 5))
    rec.enum("character-class-patterns<=%d-tokens x all tags<=3" % (3 if quick else 4), glob_class_cases(3 if quick else 4))


def required_labels(tier):
    return ["empty", "form:text", "form:list", "wildcard", "wildcard:case-pair-distinguished", "literal:dot-dash-eq",
            "rendering:at", "rendering:extra-parens", "rendering:extra-blanks", "operators>=2", "negation",
            "depth:3", "depth:5", "placeholder:substituted", "placeholder:no-command-line-tags",
            "escaped-wildcard", "escaped-literal", "glob-edge", "glob-edge:overlap-candidate",
            "rendering:term-of-parenthesised-groups", "glob-edge:character-class", "glob-edge:character-class-next-to-star",
            "operator-like-tag-names", "command-line", "command-line:--wip", "command-line:terms=3", "placeholder-unconfigured", "placeholder:re-read-after-another-configuration", "run-protocol:V1", "run-protocol:V2", "run-protocol:AUTO_DETECT"] + ["placeholder:" + v for v in VIAS]


KNOWN_PREDICATES = {}


RULE = RULE + " " + ("Further sub-checks: a second universe with operator-like tag names (OR-1, NOT.x, k=And, Or, AND; OR-* wildcards) that are operands, never operators; the command-line route (one --tags option per term of a real Configuration, with and without --wip); rendering 32 = a term that starts with '(' and ends with ')' without being one group.")
RULE = RULE + " " + ("21 child-process runs with tag_expression_protocol set in behave.ini: hooks observe the dialect in force (and what make_tag_expression('a,b') means) during the run; --tags=a,b selects accordingly.")
RULE = RULE + " " + ("The placeholder without any configured tags: refused, or -- when accepted -- equal to the template with an always-true placeholder.")
RULE = RULE + " " + ('Half of the placeholder cases continue with a history: a second Configuration with the old dialect is built, then the first one reads its tags again (setup_tag_expression()): same formula.')
