# -*- coding: utf-8 -*-
"""C02 -- Step execution: order, outcome-to-status mapping, stop after first non-pass."""
from __future__ import annotations

import copy
import itertools

from hypothesis import strategies as st

from .. import gen, refmodel, runcheck
from ..core import CaseResult
from ..program import OUTCOMES, PHRASE

ID = "C02"
LEVEL = "exploration"
RULE = ("A case is one scenario under test (plain or outline row) whose step-outcome sequence is spread over 0-2 "
        "levels of inherited background (feature, rule) + own steps, with a sibling scenario sharing the backgrounds; "
        "all sequences over the 8 outcomes up to length 4 x {@wip} x {dry-run} x {sync, async} are enumerated, longer "
        "ones (<= 12), continue_after_failed_step and repeated runs of the same model objects are drawn randomly. "
        "Oracle: step-function call log and per-step status equal the reference interpreter. Non-trivial = a non-pass "
        "outcome not in last position, or background depth >= 1.")
ASSUMPTIONS = [
    "dry-run status of steps that have a definition is only required to be of untested class",
    "continue_after_failed_step is exercised with outcomes pass/fail/raise/convert and with steps that skip their scenario",
    "repeated runs exclude the skip outcome: scenario.skip() marks the scenario as excluded for later runs by design",
]
SIMPLIFY = {"o": lambda v: "pass" if v in OUTCOMES else None}
WATCHDOG_S = {"quick": 900, "thorough": 4 * 3600}

ASYNC_OK = ("pass", "fail", "raise", "raise_timeout", "pending", "skip")


def build(case):
    """seq case -> program"""
    outs = case["outs"]
    depth = case.get("depth", 0)
    cut1 = case.get("cut1", 0)
    cut2 = case.get("cut2", 0)
    n = len(outs)
    if depth == 0:
        parts = [[], [], list(range(n))]
    elif depth == 1:
        c = min(cut1, n)
        parts = [list(range(c)), [], list(range(c, n))]
    else:
        c1 = min(cut1, n)
        c2 = min(max(cut2, c1), n)
        parts = [list(range(c1)), list(range(c1, c2)), list(range(c2, n))]
    kws = case.get("kws") or []

    def mk(i, first):
        o = outs[i]
        kw = kws[i % len(kws)] if kws else ["Given", "When", "Then"][i % 3]
        if first and kw in ("And", "But"):
            kw = "Given"
        s = {"kw": kw, "uid": "q%d" % i, "o": o}
        if case.get("async") and o in ASYNC_OK:
            s["a"] = 2 if i % 2 else True       # both documented decorator styles (with / without timeout=)
        if o == "act":
            s["acts"] = case["acts"][str(i)]
        if o == "pass" and case.get("returns") and not s.get("a"):
            s["emit"] = {"ret": ("False", "0", "True", "text", "empty")[(i + len(outs)) % 5]}
        return s

    fbg = [mk(i, k == 0) for k, i in enumerate(parts[0])]
    rbg = [mk(i, k == 0 and not fbg) for k, i in enumerate(parts[1])]
    own = [mk(i, k == 0 and not fbg and not rbg) for k, i in enumerate(parts[2])]
    tags = ["wip"] if case.get("wip") else []
    if case.get("as_row") and case.get("bg_placeholders") and depth >= 1:
        # background steps whose outcome comes from an examples column of the outline rows: behave
        # substitutes them per row; in a plain scenario (SIB) such a step has no definition
        for blist, idxs in ((fbg, parts[0]), (rbg, parts[1])):
            for k, i in enumerate(idxs):
                if outs[i] not in ("act",) and (i + len(outs)) % 2 == 0:
                    blist[k] = dict(blist[k], o="<b%d>" % i)
                    blist[k].pop("a", None)
    if case.get("as_row"):
        # the scenario under test is the 2nd row of an outline; outcome of step i comes from column ci
        cols = ["c%d" % i for i in parts[2]]
        osteps = []
        for k, i in enumerate(parts[2]):
            s = dict(own[k])
            if outs[i] != "act":
                s["o"] = "<c%d>" % i
                s.pop("a", None)
            osteps.append(s)
        row_pass = [PHRASE["pass"] for _ in parts[2]]
        row_test = [PHRASE[outs[i]] if outs[i] != "act" else "acts" for i in parts[2]]
        if not cols:
            cols, row_pass, row_test = ["c"], ["x"], ["y"]
        for blist, idxs in ((fbg, parts[0]), (rbg, parts[1])):
            for k, i in enumerate(idxs):
                if blist[k]["o"].startswith("<b"):
                    cols = cols + ["b%d" % i]
                    row_pass = row_pass + [PHRASE["pass"]]
                    row_test = row_test + [PHRASE[outs[i]]]
        sut = {"k": "o", "name": "SUT", "tags": tags, "steps": osteps,
               "ex": [{"name": "", "tags": [], "cols": cols, "rows": [row_pass, row_test]}]}
    else:
        sut = {"k": "s", "name": "SUT", "tags": tags, "steps": own}
    sibling = {"k": "s", "name": "SIB", "tags": [], "steps": [{"kw": "Given", "uid": "sib", "o": "pass"}]}
    feat = {"name": "F", "tags": [], "items": []}
    if depth >= 1:
        feat["bg"] = fbg
    if depth == 2:
        rule = {"k": "r", "name": "R", "tags": [], "bg": rbg, "items": [sut, sibling]}
        feat["items"] = [rule]
    else:
        feat["items"] = [sut, sibling]
    cfg = {}
    if case.get("dry"):
        cfg["dry_run"] = True
    if case.get("cont"):
        cfg["continue_after_failed"] = True
    prog = {"features": [feat], "cfg": cfg}
    if case.get("hookfault") and outs:
        # the before_step / after_step hook of one step raises: that step does not pass either
        hook, i, exc = case["hookfault"]
        prog["hook_faults_named"] = [[hook, "q%d" % (int(i) % len(outs)), exc]]
    return prog


def check(case):
    res = CaseResult()
    kind = case.get("kind", "seq")
    if kind == "seq":
        prog = build(case)
        outs = case["outs"]
        prog, ref, run = runcheck.run_and_ref(prog)
        if run.escaped is not None:
            res.fail("C02.escape", "exception escaped run(): %r" % (run.escaped,))
            return res
        runcheck.check_calls(res, "C02", ref, run)
        runcheck.check_step_statuses(res, "C02", ref, run)
        nonlast = any(o != "pass" for o in outs[:-1])
        res.nontrivial = bool(nonlast or case.get("depth"))
        res.label("depth:%d" % case.get("depth", 0), "row" if case.get("as_row") else "plain")
        for f in ("wip", "dry", "async", "cont", "bg_placeholders"):
            if case.get(f):
                res.label(f)
        if case.get("cont") and case.get("dry"):
            res.label("cont+dry")
            if "undefined" in outs[:-1]:
                res.label("cont+dry:undefined-step-with-followers")
        if case.get("returns") and "pass" in outs and not case.get("dry"):
            res.label("step-function-returns-a-value")
        if case.get("hookfault") and outs and not case.get("dry"):
            hook, i, _exc = case["hookfault"]
            i = int(i) % len(outs)
            if (hook, "q%d" % i) in set((h, ident) for h, ident, _open in ref.hooks):
                res.label("step-hook-raises:" + hook)
                if outs[i] == "pass" and i + 1 < len(outs):
                    res.label("step-hook-raises:passing-step-with-followers")
        if outs:
            res.label("first:" + outs[0], "last:" + outs[-1])
            for o in outs[1:-1]:
                res.label("middle:" + o)
        res.label("len:%d" % min(len(outs), 5))
    elif kind == "rerun":
        check_rerun(res, case)
    elif kind == "program":
        if case.get("rebuilt"):
            # behave driven as a library with a model BUILT through the public constructors: every Rule is created WITH its
            # scenarios (Rule(..., scenarios=[...])) and then handed to Feature.add_rule() -- not the order of the parser
            from ..harness import parse_program, run_program
            from ..program import normalize as _normalize
            prog = runcheck.resolve_faults(case["program"])
            _normalize(prog)
            ref = refmodel.simulate(prog)
            parsed, _texts = parse_program(prog)
            run = run_program(prog, features=[rebuild_feature(f) for f in parsed])
            res.label("model-built-through-constructors")
        else:
            prog, ref, run = runcheck.run_and_ref(case["program"])
        if run.escaped is not None:
            res.fail("C02.escape", "exception escaped run(): %r" % (run.escaped,))
            return res
        runcheck.check_calls(res, "C02", ref, run)
        runcheck.check_step_statuses(res, "C02", ref, run)
        res.nontrivial = len(ref.calls) >= 2
        res.label("program")
        if runcheck.typed_texts(prog):
            res.label("one-text-several-step-types")
        if case.get("nested"):
            res.label("nested-steps")
            from ..harness import _all_step_lists
            called = set(map(tuple, run.calls))
            for f in prog["features"]:
                for lst in _all_step_lists(f):
                    for s_ in lst:
                        subs = s_.get("sub") or []
                        for a, b in zip(subs, subs[1:]):
                            if a["o"] == "pending" and any(c[1] == a["uid"] for c in called):
                                res.label("nested-steps:pending-sub-step-with-followers")
    else:
        raise ValueError(kind)
    return res


def rebuild_feature(feature):
    from behave.model import Feature, Rule
    new = Feature(feature.filename, feature.line, feature.keyword, feature.name, tags=list(feature.tags),
                  description=list(feature.description), background=feature.background, language=feature.language)
    new.parser = getattr(feature, "parser", None)
    for item in feature.run_items:
        if isinstance(item, Rule):
            # (a rule without own Background section got a step-less default one from the parser, located at the rule's line)
            own_background = item.background if (item.background is not None and item.background.line != item.line) else None
            rule = Rule(item.filename, item.line, item.keyword, item.name, tags=list(item.tags),
                        description=list(item.description), scenarios=list(item.run_items), background=own_background)
            new.add_rule(rule)
        else:
            new.add_scenario(item)
    return new


def check_rerun(res, case):
    """The same model objects are run several times with outcomes looked up at call time."""
    base = build(dict(case, kind="seq"))
    runs = case["runs"]
    features = None
    res.evals = runs
    for r in range(runs):
        prog = copy.deepcopy(base)
        prog["run_index"] = r
        prog2 = runcheck.resolve_faults(prog)
        ref = refmodel.simulate(prog2)
        run = runcheck.run_program(prog2, features=features)
        features = run.features
        if run.escaped is not None:
            res.fail("C02.escape", "exception escaped run() #%d: %r" % (r, run.escaped))
            return
        before = len(res.violations)
        runcheck.check_calls(res, "C02.rerun", ref, run)
        runcheck.check_step_statuses(res, "C02.rerun", ref, run)
        if len(res.violations) > before:
            res.violations[-1].detail = "run #%d: %s" % (r, res.violations[-1].detail)
            return
    res.label("rerun")
    res.nontrivial = True


# ---------------------------------------------------------------------------
def enumeration():
    idx = 0
    for n in range(0, 5):
        for outs in itertools.product(OUTCOMES, repeat=n):
            for wip, dry, asy in itertools.product([False, True], repeat=3):
                depth = idx % 3
                as_row = (idx // 3) % 2 == 1
                idx += 1
                yield {"kind": "seq", "outs": list(outs), "depth": depth, "cut1": 1 + (idx // 7) % 2,
                       "cut2": 2 + (idx // 11) % 2, "as_row": as_row, "wip": wip, "dry": dry, "async": asy}


@st.composite
def random_seq(draw, max_len=12):
    n = draw(st.integers(1, max_len))
    outs = [draw(gen.outcome_st(p_pass=0.7)) for _ in range(n)]
    case = {"kind": "seq", "outs": outs, "depth": draw(st.integers(0, 2)),
            "cut1": draw(st.integers(0, n)), "cut2": draw(st.integers(0, n)),
            "as_row": draw(st.booleans()), "wip": draw(st.booleans()),
            "dry": draw(st.integers(0, 4)) == 0, "async": draw(st.booleans()),
            "kws": draw(st.lists(st.sampled_from(gen.STEP_KW), min_size=1, max_size=5)),
            "bg_placeholders": draw(st.booleans())}
    # some conversion errors come from converters that raise KeyError instead of ValueError
    case["outs"] = [("convert_key" if (o == "convert" and draw(st.booleans())) else o) for o in case["outs"]]
    if draw(st.integers(0, 2)) == 0:
        case["returns"] = True      # passing step functions return a value (False, 0, True, text)
    if draw(st.integers(0, 3)) == 0:
        case["hookfault"] = [draw(st.sampled_from(["before_step", "after_step"])), draw(st.integers(0, n - 1)),
                             draw(st.sampled_from(["Exception", "AssertionError", "Exception0"]))]
    return case


@st.composite
def cont_seq(draw):
    n = draw(st.integers(1, 8))
    outs = [draw(st.sampled_from(["pass", "pass", "fail", "raise", "convert", "skip", "undefined"])) for _ in range(n)]
    if "skip" in outs:
        # (a step that skips its scenario after an earlier failure, followed by an undefined step: two sentences of the
        # statement meet -- skipped / undefined -- left open)
        outs = [("pass" if o == "undefined" else o) for o in outs]
    # ... also together with --dry-run: no step function is ever called, whatever the switch says
    return {"kind": "seq", "outs": outs, "depth": draw(st.integers(0, 2)),
            "cut1": draw(st.integers(0, n)), "cut2": draw(st.integers(0, n)),
            "as_row": draw(st.booleans()), "cont": True, "async": draw(st.booleans()),
            "dry": draw(st.integers(0, 3)) == 0}


@st.composite
def rerun_case(draw):
    n = draw(st.integers(1, 6))
    runs = draw(st.integers(2, 3))
    outs = []
    acts = {}
    for i in range(n):
        if draw(st.integers(0, 3)) == 0:
            outs.append(draw(st.sampled_from(["pass", "fail", "undefined", "convert"])))
        else:
            outs.append("act")
            acts[i] = [draw(st.sampled_from(["pass", "pass", "fail", "raise", "pending", "interrupt"]))
                       for _ in range(runs)]
    return {"kind": "rerun", "outs": outs, "acts": {str(k): v for k, v in acts.items()}, "runs": runs,
            "depth": draw(st.integers(0, 2)), "cut1": draw(st.integers(0, n)),
            "cut2": draw(st.integers(0, n)), "as_row": draw(st.booleans()), "wip": draw(st.booleans())}


@st.composite
def nested_program(draw):
    """Steps that execute other steps (context.execute_steps()): the sub-steps are step functions of the scenario as
    well -- after the first sub-step that does not pass (failed, error, PENDING) no further one is called."""
    prog = draw(gen.program_st(faults=False, max_features=2, outcomes=["pass", "pass", "pass", "fail", "undefined"],
                               cfg=gen.cfg_st(flags=(), p_tags=0.3)))
    n = draw(gen.nestify(prog, sub_outcomes=("pass", "pass", "fail", "raise", "pending", "pending"), p=2, strip_wip=True))
    return {"kind": "program", "program": prog, "nested": n}


def explore(rec):
    quick = rec.tier == "quick"
    rec.enum("all-sequences<=4", enumeration())
    rec.hyp("random-sequences", random_seq(), 4000 if quick else 120000)
    rec.hyp("continue-after-failed", cont_seq(), 800 if quick else 20000)
    rec.hyp("rerun-same-objects", rerun_case(), 1200 if quick else 30000)
    rec.hyp("nested-steps", nested_program(), 1200 if quick else 30000)
    rec.hyp("random-programs", gen.program_st(faults=False, typed=True).map(lambda p: {"kind": "program", "program": p}),
            1500 if quick else 40000)
    def rebuilt_case(p):
        # (plain scenarios only inside the re-assembled rules: WHEN an outline that is handed over inside a Rule builds its
        # rows is a matter of the order of the API calls, not of the statement)
        for f in p["features"]:
            for it in f["items"]:
                if it["k"] == "r":
                    it["items"] = [sub for sub in it["items"] if sub["k"] == "s"]
        return {"kind": "program", "program": p, "rebuilt": True}
    rec.hyp("models-built-through-constructors", gen.program_st(faults=False, max_features=2, min_rules=1, max_rules=2,
                                                                 big_dims=["items", "steps", "tags", "rules", "ruleitems"]).map(rebuilt_case),
            600 if quick else 15000)


def required_labels(tier):
    req = ["depth:0", "depth:1", "depth:2", "row", "plain", "wip", "dry", "async", "cont", "rerun", "program",
           "bg_placeholders", "first:convert_key", "one-text-several-step-types", "step-hook-raises:before_step",
           "step-hook-raises:after_step", "step-hook-raises:passing-step-with-followers",
           "step-function-returns-a-value", "model-built-through-constructors", "nested-steps", "nested-steps:pending-sub-step-with-followers", "cont+dry:undefined-step-with-followers"]
    for o in OUTCOMES:
        req += ["first:" + o, "middle:" + o, "last:" + o]
    return req


KNOWN_PREDICATES = {}


RULE = RULE + " " + ('Programs also contain step texts that are bound per step type (one text: passing @given, failing @then, no @when definition) and converters raising KeyError.')
RULE = RULE + " " + ('A quarter of the random sequences let the before_step or after_step hook of one step raise (that step does not pass either: nothing after it is called).')
RULE = RULE + " " + ('A third of the random sequences let passing step functions return a value (False, 0, True, text): what a step function returns is no outcome. Sequences under continue_after_failed_step also contain steps that skip their scenario.')
