# -*- coding: utf-8 -*-
"""C10 -- File-location and name selection pick exactly the addressed scenarios."""
from __future__ import annotations

import copy
import os
import re

from hypothesis import strategies as st

from .. import disk, gen, runcheck
from ..core import CaseResult
from ..harness import run_program
from ..program import normalize, render_feature, scenario_instances

ID = "C10"
LEVEL = "exploration"
RULE = ("Rendered feature documents (rules, outlines with several examples blocks, tags incl. @setup/@teardown, drawn "
        "indentation / blank / comment lines) are written to a scratch project; EVERY line number from 0 to last+3 is used as "
        "file:LINE through parse_features (complete per document), all pairs of lines for documents <= 12 lines and drawn "
        "triples; location lists over 2-3 files, directly and via @listfile (comments, blank lines, indented entries, list file "
        "in cwd or in a sub-directory, relative paths); FileLocationParser.parse on generated strings; name patterns built from "
        "scenario names and regex fragments. Oracle: entity table from the renderer (feature, rule, outline, examples row, "
        "scenario): the entity starting at LINE, else the nearest one starting above; its scenarios are the selection; union over "
        "consecutive same-file locations; everything else skipped except @setup/@teardown; name selection == any(re.search). "
        "Checked on should_skip after parse_features and by running. Non-trivial = document with >= 3 entities of >= 2 kinds.")
ASSUMPTIONS = [
    "lines before the Feature line (tags/comments above it) are not compared: no entity starts above them",
    "a file that is named again later in a location list (not next to its first mention) is loaded again: each group of "
    "consecutive locations selects its own union (observed behaviour; together the groups run the union)",
    "name patterns are simple regular expressions without back-references or inline flags",
]
SIMPLIFY = {"o": lambda v: "pass" if not v.startswith("<") else None, "bg": "nullable", "noise": "nullable"}
WATCHDOG_S = {"quick": 900, "thorough": 4 * 3600}


def instance_lines(feat, facts):
    """Line of every scenario instance (plain scenario: its own line, outline row: the row's line), parallel to
    scenario_instances(feat).  Lines are the identity of scenarios here (names need not be unique)."""
    lines = {}

    def scen(item, f):
        if item["k"] == "s":
            lines[id(item), 0] = f["line"]
        else:
            k = 0
            for ex in f["examples"]:
                for ln in ex["row_lines"]:
                    lines[id(item), k] = ln
                    k += 1
    for item, f in zip(feat["items"], facts["items"]):
        if item["k"] == "r":
            for sub, f2 in zip(item["items"], f["items"]):
                scen(sub, f2)
        else:
            scen(item, f)
    out = []
    seen = {}
    for inst in scenario_instances(feat):
        k = seen.get(id(inst["item"]), 0)
        seen[id(inst["item"])] = k + 1
        out.append(lines[id(inst["item"]), k])
    return out


def entity_table(feat, facts):
    """[(line, kind, [scenario instance lines])] sorted by line."""
    insts = list(scenario_instances(feat))
    ilines = instance_lines(feat, facts)
    table = []
    all_names = list(ilines)
    table.append((facts["line"], "feature", list(all_names)))

    def scen(item, f, rule):
        names = [ln for i, ln in zip(insts, ilines) if i["item"] is item]
        if item["k"] == "s":
            table.append((f["line"], "scenario", names))
        else:
            table.append((f["line"], "outline", names))
            k = 0
            for ex in f["examples"]:
                for ln in ex["row_lines"]:
                    table.append((ln, "row", [names[k]]))
                    k += 1
    for item, f in zip(feat["items"], facts["items"]):
        if item["k"] == "r":
            names = [ln for i, ln in zip(insts, ilines) if i["rule"] is item]
            table.append((f["line"], "rule", names))
            for sub, f2 in zip(item["items"], f["items"]):
                scen(sub, f2, item)
        else:
            scen(item, f, None)
    table.sort(key=lambda t: t[0])
    return table, all_names


def select(table, all_names, line):
    """Expected selection for file:line; None = not compared (before the Feature line)."""
    if not line:
        return set(all_names)
    if line < table[0][0]:
        return None
    best = None
    for ln, _kind, names in table:
        if ln <= line:
            best = names
        else:
            break
    return set(best)


def protected(feat, facts):
    """Scenario instances tagged @setup / @teardown are never skipped by location selection."""
    out = set()
    for inst, ln in zip(scenario_instances(feat), instance_lines(feat, facts)):
        if "setup" in inst["tags"] or "teardown" in inst["tags"]:
            out.add(ln)
    return out


def skipped_map(feature):
    return dict((s.line, bool(s.should_skip)) for s in feature.walk_scenarios())


def check_selection(res, clause, feature_obj, feat, facts, want, where):
    if want is None:
        return True
    prot = protected(feat, facts)
    got = skipped_map(feature_obj)
    for inst, ln in zip(scenario_instances(feat), instance_lines(feat, facts)):
        name = "%s@%d" % (inst["name"], ln)
        expect_skip = (ln not in want) and (ln not in prot)
        if ln not in got:
            res.fail(clause, "%s: scenario %r missing from the model" % (where, name))
            return False
        if got[ln] != expect_skip:
            res.fail(clause, "%s: scenario %r should_skip=%s, expected %s (selection: lines %s)"
                     % (where, name, got[ln], expect_skip, sorted(want)))
            return False
    return True


class Cwd(object):
    def __init__(self, path):
        self.path = path

    def __enter__(self):
        self.old = os.getcwd()
        os.chdir(self.path)

    def __exit__(self, *exc):
        os.chdir(self.old)


def check(case):
    # the model prints a diagnostic for Examples sections without a table whenever an outline's rows are built
    import contextlib
    import io
    with contextlib.redirect_stdout(io.StringIO()):
        return _check(case)


def _check(case):
    res = CaseResult()
    kind = case["kind"]
    if kind == "lines":
        check_lines(res, case)
    elif kind == "list":
        check_list(res, case)
    elif kind == "locparse":
        check_locparse(res, case)
    elif kind == "name":
        check_name(res, case)
    else:
        raise ValueError(kind)
    return res


def _project(case):
    prog = copy.deepcopy(case["program"])
    normalize(prog)
    # feature file names may contain characters that mean something to glob (legal file names)
    names = dict((int(k), v) for k, v in (case.get("fnames") or {}).items())
    return prog, disk.Project(prog, names=names)


def check_lines(res, case):
    from behave.model_core import FileLocation
    from behave.runner_util import parse_features
    prog, proj = _project(case)
    try:
        with Cwd(proj.root):
            feat = prog["features"][0]
            path = proj.feature_files[0]
            table, all_names = entity_table(feat, proj.facts[0])
            nlines = len(proj.texts[0].splitlines())
            count = 0
            only = case.get("only")
            singles = [[ln] for ln in range(0, nlines + 4)]
            groups = list(singles)
            if nlines <= 12:
                groups += [[a, b] for a in range(1, nlines + 2) for b in range(a + 1, nlines + 2)]
                res.label("all-pairs(doc<=12)")
            for trip in case.get("triples", []):
                groups.append([1 + (x % (nlines + 1)) for x in trip])
            for idx, group in enumerate(groups):
                if only is not None and idx != only:
                    continue
                locs = [FileLocation(path, ln) for ln in group]
                features = parse_features(locs)
                count += 1
                if len(features) != 1:
                    res.fail("C10.location.features", "locations %s of one file gave %d features" % (group, len(features)))
                    break
                wants = [select(table, all_names, ln) for ln in group]
                if any(w is None for w in wants):
                    continue
                want = set().union(*wants)
                clause = "C10.location.single" if len(group) == 1 else "C10.location.union"
                if not check_selection(res, clause, features[0], feat, proj.facts[0], want, "%s:%s" % (path, group)):
                    res.violations[-1].detail = "group #%d: %s" % (idx, res.violations[-1].detail)
                    break
            res.evals = max(1, count)
            # -- run a selection (one location) and compare the executed scenarios
            if only is None and nlines >= 2:
                ln = 1 + (case.get("run_line", 0) % nlines)
                want = select(table, all_names, ln)
                if want is not None:
                    features = parse_features([FileLocation(path, ln)])
                    run_prog = copy.deepcopy(prog)
                    run_prog["cfg"] = {}

                    def setup(runner, plan):
                        if case.get("autoretry"):
                            # the documented auto-retry recipe (environment.py) next to a location selection
                            from behave.contrib.scenario_autoretry import patch_scenario_with_autoretry
                            from behave.model import ScenarioOutline
                            for f in runner.features:
                                for s in f.walk_scenarios(with_outlines=True):
                                    if isinstance(s, ScenarioOutline) or getattr(s, "_row", None) is None:
                                        patch_scenario_with_autoretry(s, max_attempts=2)
                    run = run_program(run_prog, features=features, setup=setup)
                    if case.get("autoretry"):
                        res.label("run-sample:auto-retry")
                    if run.escaped is not None:
                        res.fail("C10.run.escape", "run() raised %r" % (run.escaped,))
                    else:
                        ran = set(obj.line for obj in run.ran_scenarios)
                        allowed = want | protected(feat, proj.facts[0])
                        if not ran <= allowed:
                            res.fail("C10.run.executed", "file:%d selects the scenarios at lines %s but those at %s were run"
                                     % (ln, sorted(want), sorted(ran - allowed)))
                        elif set(n for n, _u in run.calls) and not ran:
                            res.fail("C10.run.executed", "steps ran (%r) but no scenario was started" % (run.calls[:3],))
                    res.label("run-sample")
            kinds = set(k for _l, k, _n in table)
            res.nontrivial = len(table) >= 3 and len(kinds) >= 2
            for k in kinds:
                res.label("entity:" + k)
            if protected(feat, proj.facts[0]):
                res.label("setup/teardown")
            names = [i["name"] for i in scenario_instances(feat)]
            if len(set(names)) < len(names):
                res.label("scenario-names-not-unique")
            if feat.get("noise"):
                res.label("noise")
            if any(ex.get("notable") for it in feat["items"] for sub in (it["items"] if it["k"] == "r" else [it])
                   if sub["k"] == "o" for ex in sub["ex"]):
                res.label("examples-section-without-table")
    finally:
        proj.close()


def check_list(res, case):
    from behave.runner_util import collect_feature_locations, parse_features
    prog, proj = _project(case)
    try:
        with Cwd(proj.root):
            nfeat = len(prog["features"])
            tables = [entity_table(prog["features"][i], proj.facts[i]) for i in range(nfeat)]
            nl = [len(t.splitlines()) for t in proj.texts]
            # entries: consecutive groups per file
            entries = []    # (file index, line or None)
            dir_positions = []
            for fi, lines in case["entries"]:
                if fi == "dir":
                    # the features directory itself as an argument: every file in it, in sorted order, as a whole
                    dir_positions.append(len(entries))
                    by_name = sorted(range(nfeat), key=lambda i: os.path.basename(proj.feature_files[i]))
                    entries.extend((i, None) for i in by_name)
                    continue
                fi = fi % nfeat
                for ln in lines:
                    entries.append((fi, None if ln is None else 1 + (ln % nl[fi])))
            # consecutive locations of one file form a group (one Feature object per group); a file that is named
            # again later in the list forms another group: together the groups select the union
            groups = []     # [(file index, [line or None ...])]
            for fi, ln in entries:
                if groups and groups[-1][0] == fi:
                    groups[-1][1].append(ln)
                else:
                    groups.append((fi, [ln]))
            order = [fi for fi, _lns in groups]
            if len(set(order)) < len(order):
                res.label("list:file-named-again-later")
            listdir = case.get("listdir") or ""
            via = case.get("via", "list")
            if via == "list":
                base = os.path.join(proj.root, listdir) if listdir else proj.root
                os.makedirs(base, exist_ok=True)
                lines = []
                for k, (fi, ln) in enumerate(entries):
                    rel = os.path.relpath(os.path.join(proj.root, proj.feature_files[fi]), base)
                    text = rel if ln is None else "%s:%d" % (rel, ln)
                    deco = case.get("deco", [0])[k % len(case.get("deco", [0]))]
                    if deco % 4 == 1:
                        lines.append("# a comment")
                    elif deco % 4 == 2:
                        lines.append("")
                    indent = " " * ((deco // 4) % 3)
                    lines.append(indent + text + (" " if (deco // 12) % 2 else ""))
                listfile = os.path.join(listdir, "selected.txt") if listdir else "selected.txt"
                if case.get("rewritten"):
                    # history: the list file had other contents before and was read then (a rerun file that is written
                    # again by every run, a list file maintained by a tool); what counts is what it says NOW
                    with open(listfile, "w") as f:
                        f.write("\n".join(l for l in reversed(lines[:-1]) if l.strip() and not l.startswith("#")) + "\n"
                                + os.path.relpath(os.path.join(proj.root, proj.feature_files[0]), base) + ":1\n")
                    parse_features(collect_feature_locations(["@" + listfile]))
                    res.label("listfile:read-rewritten-read-again")
                with open(listfile, "w") as f:
                    f.write("\n".join(lines) + "\n")
                try:
                    locations = collect_feature_locations(["@" + listfile])
                    features = parse_features(locations)
                except (IOError, OSError) as e:
                    res.fail("C10.listfile.resolve", "list file %r with entries %r could not be resolved: %r"
                             % (listfile, lines, e))
                    return
                res.label("via-listfile" + (":subdir" if listdir else ":cwd"))
                if any(l.startswith(" ") for l in lines):
                    res.label("listfile:indented-entry")
            elif via == "ini":
                # the locations are the 'paths' of the project's configuration file, nothing is named on the command line
                from behave.configuration import Configuration
                locs = [proj.feature_files[fi] if ln is None else "%s:%d" % (proj.feature_files[fi], ln)
                        for fi, ln in entries]
                with open("behave.ini", "w") as f:
                    f.write("[behave]\npaths = " + "\n    ".join(locs) + "\n")
                old_home = os.environ.get("HOME")
                os.environ["HOME"] = proj.root
                try:
                    config = Configuration([], load_config=True)
                finally:
                    if old_home is None:
                        os.environ.pop("HOME", None)
                    else:
                        os.environ["HOME"] = old_home
                locations = collect_feature_locations(list(config.paths))
                features = parse_features(locations)
                res.label("via-configuration-file-paths")
            else:
                args = []
                k = 0
                while k < len(entries):
                    if k in dir_positions:
                        args.append("features")
                        k += nfeat
                        continue
                    fi, ln = entries[k]
                    args.append(proj.feature_files[fi] if ln is None else "%s:%d" % (proj.feature_files[fi], ln))
                    k += 1
                if dir_positions:
                    res.label("via-args:directory-next-to-locations")
                locations = collect_feature_locations(args)
                features = parse_features(locations)
                res.label("via-args")
                if case.get("fnames"):
                    res.label("via-args:glob-characters-in-file-name")
            if len(features) != len(order):
                res.fail("C10.list.features", "%d features for %d files" % (len(features), len(order)))
                return
            for fobj, (fi, lns) in zip(features, groups):
                table, all_names = tables[fi]
                wants = [select(table, all_names, ln) for ln in lns]
                if any(w is None for w in wants):
                    continue
                want = set().union(*wants)
                check_selection(res, "C10.list.selection", fobj, prog["features"][fi], proj.facts[fi], want,
                                "file #%d group %s of the list %s" % (fi, lns, entries))
            res.nontrivial = len(order) >= 2 or len(entries) >= 2
            res.label("files:%d" % len(set(order)))
    finally:
        proj.close()


def check_locparse(res, case):
    from behave.runner_util import FileLocationParser
    text = case["text"]
    loc = FileLocationParser.parse(text)
    m = re.match(r"^(.*):(\d+)$", text.strip(), re.S)
    if m:
        want = (m.group(1).strip(), int(m.group(2)))
    else:
        want = (text.strip(), None)
    if (loc.filename, loc.line) != want:
        res.fail("C10.locparse", "FileLocationParser.parse(%r) == (%r, %r), expected %r"
                 % (text, loc.filename, loc.line, want))
    res.nontrivial = bool(m)
    res.label("locparse")


def iter_items_of(feature):
    from ..program import iter_items
    return list(iter_items(feature))


def check_name(res, case):
    prog = copy.deepcopy(case["program"])
    normalize(prog)
    names = []
    insts = []
    feat_of = {}
    for f in prog["features"]:
        for i in scenario_instances(f):
            insts.append(i)
            feat_of[id(i)] = f
    if case.get("schema"):
        # another name schema for outline rows (configuration file): the rows are selected by the names they GET
        for i in insts:
            if i["outline"] is not None:
                i["name"] = u"%s [%s row %d]" % (i["name"].split(u" -- @")[0], i["ex"].get("name", u""), i["ri"])
        res.label("name:other-annotation-schema")
    for kind, a, b in case["patterns"]:
        if not insts:
            break
        target = insts[a % len(insts)]["name"]
        if kind == "exact":
            names.append("^" + re.escape(target) + "$")
        elif kind == "sub":
            lo = b % max(1, len(target))
            names.append(re.escape(target[lo:lo + 3]))
        elif kind == "prefix":
            names.append("^" + re.escape(target[:1 + b % 3]))
        elif kind == "class":
            names.append(["S[0-9]+$", "O\\d", "^.1", "@1\\.[12] ", "S(1|3)$", "nomatch", "[SO]2", "row 1\\]$", " row "][b % 9])
    names = [n for n in names if n]
    if not names:
        res.label("name:none")
        return
    prog["cfg"] = dict(case.get("tagcfg") or {}, names=names)
    if case.get("schema"):
        prog["cfg"]["schema"] = u"{name} [{examples.name} row {row.index}]"
    suffix = u" [chrome, attempt 1]"
    if case.get("tagcfg"):
        res.label("name:with-tag-selection")

    def decorate(kind, name, context, arg):
        # the before_scenario hook decorates the scenario's name for the reports: the selection was made on
        # the name as written in the file
        if kind == "hook" and name == "before_scenario" and not arg.name.endswith(suffix):
            arg.name = arg.name + suffix
    run = run_program(prog, observers=[decorate] if case.get("decorate") else None)
    if run.escaped is not None:
        res.fail("C10.name.escape", "run() raised %r" % (run.escaped,))
        return
    from .. import refmodel, tagref
    ast = refmodel.tag_ast(prog["cfg"])
    want = set(i["name"] for i in insts if any(re.search(p, i["name"]) for p in names)
               and tagref.evaluate(ast, refmodel.effective_tags(feat_of[id(i)], i)))
    ran = set((n[:-len(suffix)] if n and n.endswith(suffix) else n) for n, _u in run.calls)
    if case.get("decorate"):
        res.label("name:hook-decorates-the-name")
        for sc in run.ran_scenarios:
            if sc.name.endswith(suffix):
                sc.name = sc.name[:-len(suffix)]
    from ..program import all_steps_of
    unique = set(n for n in want if [i["name"] for i in insts].count(n) == 1)
    from ..program import step_outcome
    with_steps = set(i["name"] for f in prog["features"] for i in scenario_instances(f)
                     if all_steps_of(f, i) and step_outcome(all_steps_of(f, i)[0], i["rowdict"]) != "undefined")
    if (unique & with_steps) - ran:
        res.fail("C10.name.not-executed", "--name %s: %s selected but none of their steps ran"
                 % (names, sorted((unique & with_steps) - ran)))
    hooked = set(ident for h, ident in run.hooks if h == "before_scenario")
    if hooked != want:
        res.fail("C10.name.selection", "--name %s: scenarios started %s, expected %s" % (names, sorted(hooked), sorted(want)))
    if not ran <= want:
        res.fail("C10.name.executed", "--name %s: steps of %s ran" % (names, sorted(ran - want)))
    by_name = runcheck.model_scenario_map(run.features)
    for i in insts:
        if i["name"] not in want:
            objs = by_name.get(i["name"], [])
            if objs and objs[0].status.name != "skipped":
                res.fail("C10.name.not-skipped", "--name %s: %r not selected but status %s"
                         % (names, i["name"], objs[0].status.name))
                break
    res.nontrivial = 0 < len(want) < len(insts)
    res.label("name")
    if any(i["outline"] is not None for i in insts if i["name"] in want):
        res.label("name:row-selected")


# ---------------------------------------------------------------------------
@st.composite
def doc_program(draw, nfeatures=1, min_items=1):
    tags_pool = gen.TAGS + ["setup", "teardown"]
    feats = []
    for _ in range(nfeatures):
        f = draw(gen.feature_st(max_items=3, max_rules=2, min_items=min_items, outcomes=["pass"], with_async=False))
        if draw(st.integers(0, 3)) == 0:
            for item in f["items"]:
                subs = item["items"] if item["k"] == "r" else [item]
                for sub in subs:
                    if draw(st.integers(0, 3)) == 0:
                        sub["tags"] = [draw(st.sampled_from(["setup", "teardown"]))]
        if draw(st.integers(0, 5)) == 0:
            # @setup / @teardown on a rule or the feature: only a scenario's OWN tag exempts it from the selection
            target = draw(st.sampled_from([f] + [it for it in f["items"] if it["k"] == "r"]))
            target["tags"] = list(target["tags"]) + [draw(st.sampled_from(["setup", "teardown"]))]
        if draw(st.integers(0, 3)) == 0:
            # a draft "Examples:" section without any table inside an outline (tolerated: contributes no rows)
            for item in f["items"]:
                for sub in (item["items"] if item["k"] == "r" else [item]):
                    if sub["k"] == "o" and sub["ex"] and draw(st.booleans()):
                        sub["ex"].insert(draw(st.integers(0, len(sub["ex"]))),
                                         {"tags": [], "cols": [], "rows": [], "name": u"draft", "notable": True})
        if draw(st.booleans()):
            f["noise"] = draw(st.lists(st.integers(0, 200), min_size=1, max_size=8))
        if draw(st.booleans()):
            f["desc"] = ["= a description line"]
        if draw(st.integers(0, 2)) == 0:
            # equally named scenarios / outlines (typically the same title under two rules)
            for item in f["items"]:
                for sub in (item["items"] if item["k"] == "r" else [item]):
                    if draw(st.booleans()):
                        sub["name"] = draw(st.sampled_from([u"same", u"same", u"twin"]))
        feats.append(f)
    return {"features": feats, "cfg": {}}


FNAMES = [None, None, "f0[1].feature", "f0 x.feature", "f0*.feature", "f0?.feature"]


def lines_case():
    return st.builds(lambda p, t, r, ar, fn: dict({"kind": "lines", "program": p, "triples": t, "run_line": r, "autoretry": ar},
                                                 **({"fnames": {"0": fn}} if fn else {})),
                     doc_program(), st.lists(st.lists(st.integers(0, 60), min_size=3, max_size=3), max_size=4),
                     st.integers(0, 60), st.sampled_from([False, False, True]), st.sampled_from(FNAMES))


@st.composite
def list_case(draw):
    n = draw(st.integers(1, 3))
    prog = draw(doc_program(nfeatures=n))
    entries = []
    for _ in range(draw(st.integers(1, 4))):
        fi = draw(st.integers(0, n - 1))
        lines = draw(st.lists(st.one_of(st.none(), st.integers(0, 60), st.integers(0, 60)), min_size=1, max_size=3))
        entries.append([fi, lines])
    case = {"kind": "list", "program": prog, "entries": entries,
            "via": draw(st.sampled_from(["list", "list", "list", "args", "args", "ini"])),
            "listdir": draw(st.sampled_from(["", "", "lists", "features"])),
            "deco": draw(st.lists(st.integers(0, 23), min_size=1, max_size=4))}
    if case["via"] == "list" and draw(st.integers(0, 2)) == 0:
        case["rewritten"] = True
    if case["via"] == "args" and draw(st.integers(0, 2)) == 0:
        # the directory is named as well (before, between or after the file locations)
        entries.insert(draw(st.integers(0, len(entries))), ["dir", []])
    if case["via"] == "args" and draw(st.booleans()):
        # command-line arguments name files literally (entries of a list file may be glob patterns: not used there)
        k = draw(st.integers(0, n - 1))
        case["fnames"] = {str(k): draw(st.sampled_from(["f%d[1].feature", "f%d x.feature", "f%d[ab].feature"])) % k}
    return case


LOC_PARTS = ["features/a.feature", "x.feature", "dir with space/b.feature", "a:b.feature", "C:/x/y.feature", "é.feature",
             "", "f.feature:"]


def locparse_case():
    return st.builds(lambda lead, name, line, trail: {
        "kind": "locparse", "text": lead + name + ("" if line is None else ":%s" % line) + trail},
        st.sampled_from(["", " ", "  "]), st.sampled_from(LOC_PARTS),
        st.one_of(st.none(), st.integers(0, 999), st.sampled_from(["007", "1 ", "x", "-1"])),
        st.sampled_from(["", " ", "\t"]))


def name_case():
    return st.builds(lambda p, pats, deco, schema, tagcfg: {"kind": "name", "program": p, "patterns": pats, "decorate": deco,
                                                            "schema": schema, "tagcfg": tagcfg},
                     doc_program(nfeatures=2),
                     st.lists(st.tuples(st.sampled_from(["exact", "sub", "prefix", "class"]), st.integers(0, 30),
                                        st.integers(0, 30)).map(list), min_size=1, max_size=3),
                     st.sampled_from([False, False, True]), st.sampled_from([False, False, True]),
                     st.one_of(st.just({}), st.just({}), gen.tagcfg_st(p_none=0.0)))


def explore(rec):
    quick = rec.tier == "quick"
    rec.hyp("every-line", lines_case(), 2000 if quick else 30000)
    rec.hyp("location-lists", list_case(), 2000 if quick else 25000)
    rec.hyp("location-strings", locparse_case(), 600 if quick else 5000)
    rec.hyp("name-selection", name_case(), 1200 if quick else 25000)


def required_labels(tier):
    return ["entity:feature", "entity:rule", "entity:outline", "entity:row", "entity:scenario", "setup/teardown",
            "noise", "all-pairs(doc<=12)", "run-sample", "via-listfile:subdir", "via-listfile:cwd", "via-args",
            "listfile:indented-entry", "files:2", "locparse", "name", "name:row-selected", "scenario-names-not-unique",
            "via-args:glob-characters-in-file-name", "run-sample:auto-retry", "list:file-named-again-later", "via-args:directory-next-to-locations",
            "examples-section-without-table", "name:hook-decorates-the-name", "listfile:read-rewritten-read-again", "via-configuration-file-paths", "name:other-annotation-schema",
            "name:with-tag-selection"]


def _f12(case, detail, info):
    return case.get("kind") == "list" and bool(case.get("listdir"))


KNOWN_PREDICATES = {}


RULE = RULE + " " + ('Scenarios are identified by their line (names need not be unique: equally named scenarios / outlines are generated).')
RULE = RULE + " " + ('A quarter of the documents put a draft Examples section without any table into their outlines (contributes no rows; the selection of the other rows is unaffected).')
RULE = RULE + " " + ('In a third of the --name cases the before_scenario hook decorates the scenario name at run time: selection is by the name as written; every selected scenario with steps has its steps executed.')
