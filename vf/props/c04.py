# -*- coding: utf-8 -*-
"""C04 -- Gherkin parsing is faithful: structure, text, tags, step types and line numbers."""
from __future__ import annotations

import os
import tempfile

from hypothesis import strategies as st

from ..core import CaseResult
from ..program import render_feature

ID = "C04"
LEVEL = "exploration"
RULE = ("Abstract feature trees (0-3 rules, backgrounds at both levels, scenarios, outlines with 0-3 tagged examples tables, "
        "steps with doc-strings of either quote style, tables with escaped pipes and empty cells, descriptions, multi-line tags "
        "with trailing comments) are rendered with drawn indentation / blank / comment lines and parsed by parse_feature, "
        "parse_file (# language header), parse_steps, parse_scenario, parse_rule and parse_tags; every one of the 80 languages x "
        "every alias of every keyword kind is enumerated completely (one document per (language, kind, alias)). Oracle: "
        "field-by-field equality of the parsed model with the facts recorded by the renderer (kinds, nesting, order, names, "
        "keywords as written, tags with lines, descriptions, 1-based start lines incl. rows, step types with And/But/* "
        "inheritance, doc-string text, table cells) + describe_table/describe_docstring round trip. Non-trivial = document "
        "has a rule, an outline with >= 2 examples, a doc-string, an escaped pipe, a non-English language, multi-line tags or "
        "interleaved comments.")
ASSUMPTIONS = [
    "well-formed documents only (soundness rules of DESIGN.md 2.1): stripped names without line-break characters, "
    "description lines start with a non-keyword marker, doc-string lines indented at least to the quotes, stripped cells",
    "'*' as the very first step of a scenario (no predecessor) is read as a given-step",
    "the describe_* round trip is claimed for cells without backslash / line break and doc-strings without triple quotes",
]
SIMPLIFY = {"desc": "nullable", "text": "nullable", "table": "nullable", "bg": "nullable", "noise": "nullable",
            "tl": "int", "kwi": "int"}
WATCHDOG_S = {"quick": 900, "thorough": 4 * 3600}

WORDS = [u"alpha", u"beta", u"x", u"Ω-mega", u"naïve café", u"1 2", u"a:b", u"<p>", u"it's", u"(paren)", u"日本", u"e=mc2",
         u"tab\there", u"quote\"d", u"semi;colon", u"under_score", u"Given", u"Scenario", u"@at", u"#hash", u"|pipe"]
SAFE_TAGS = [u"a", u"b", u"wip", u"x.y", u"slow-1", u"k=v", u"t:3", u"Ünï", u"A", u"issue#12", u"a@b"]


def name_st(allow_empty=True, structural=False):
    """A stripped single-line name."""
    pool = WORDS if not structural else WORDS
    base = st.lists(st.sampled_from(pool), min_size=0 if allow_empty else 1, max_size=3).map(u" ".join)
    return base.map(lambda s: s.strip())


def step_name_st():
    # must be non-empty; may contain anything on one line
    return st.lists(st.sampled_from(WORDS + [u"<col>", u"\\|", u"'''"]), min_size=1, max_size=4).map(u" ".join).map(
        lambda s: s.strip() or u"x")


def desc_st():
    # description lines start with a marker no keyword starts with
    return st.lists(st.lists(st.sampled_from(WORDS), min_size=0, max_size=3).map(
        lambda ws: (u"= " + u" ".join(ws)).strip()), min_size=0, max_size=2)


CELLS = [u"", u"a", u"b c", u"1", u"x|y", u"|", u"ü", u"<col>", u"a  b", u"#c", u"@t", u"'''", u"-", u"a|b|c",
         # backslashes that do not precede a pipe are ordinary characters (Windows paths, regular expressions)
         u"C:\\new\\notes.txt", u"\\\\server\\share", u"\\d+\\n"]


@st.composite
def table_st(draw):
    ncols = draw(st.integers(1, 3))
    nrows = draw(st.integers(0, 3))
    return [[draw(st.sampled_from(CELLS)) for _ in range(ncols)] for _ in range(nrows + 1)]


DOC_LINES = [u"", u"text", u"  indented", u"# not a comment", u"@not a tag", u"| not | a table |", u"Given nothing",
             u"Scenario: no", u"ünï çödé", u"'single' \"double\"", u"    deep", u"a\tb"]


@st.composite
def step_st(draw, can_inherit, first):
    kws = ["Given", "When", "Then", "And", "But", "*"]
    if first and not can_inherit:
        kws = ["Given", "When", "Then"]
    elif first:
        kws = ["Given", "When", "Then", "And", "But"]
    s = {"kw": draw(st.sampled_from(kws)), "name": draw(step_name_st()), "kwi": draw(st.integers(0, 5))}
    v = draw(st.integers(0, 4))
    if v == 0:
        q = draw(st.integers(0, 1))
        lines = draw(st.lists(st.sampled_from(DOC_LINES), min_size=0, max_size=4))
        if q == 1:
            lines = [ln for ln in lines if not ln.strip().startswith(u"'''")]
        s["text"] = u"\n".join(lines)
        s["q"] = q
    elif v == 1:
        s["table"] = draw(table_st())
    return s


@st.composite
def steps_st(draw, can_inherit, max_size=4):
    n = draw(st.integers(0, max_size))
    return [draw(step_st(can_inherit, i == 0)) for i in range(n)]


@st.composite
def scenario_st(draw, can_inherit):
    item = {"k": "s", "name": draw(name_st()), "tags": draw(tags_st()), "tl": draw(st.integers(0, 30)),
            "steps": draw(steps_st(can_inherit)), "desc": draw(desc_st())}
    return item


def tags_st(max_size=3):
    return st.lists(st.sampled_from(SAFE_TAGS), max_size=max_size, unique=True)


@st.composite
def outline_st(draw, can_inherit):
    item = {"k": "o", "name": draw(name_st()), "tags": draw(tags_st()), "tl": draw(st.integers(0, 30)),
            "steps": draw(steps_st(can_inherit, 3)), "desc": draw(desc_st()), "ex": []}
    for _ in range(draw(st.integers(0, 3))):
        ncols = draw(st.integers(1, 3))
        cols = [u"c%d" % i for i in range(ncols)]
        if draw(st.booleans()):
            cols[0] = u"col"
        rows = [[draw(st.sampled_from(CELLS)) for _ in range(ncols)] for _ in range(draw(st.integers(0, 3)))]
        item["ex"].append({"name": draw(name_st()), "tags": draw(tags_st(2)), "tl": draw(st.integers(0, 30)),
                           "cols": cols, "rows": rows})
        if draw(st.integers(0, 7)) == 0:
            item["ex"][-1]["notable"] = True    # "Examples:" without any table
    return item


@st.composite
def feature_st(draw, lang=None):
    from behave import i18n
    if lang is None:
        lang = draw(st.sampled_from(["en", "en", "en", "de", "fr", "ja", "ru", "zh-CN", "ht", "en-pirate", "ar", "em"]))
    feat = {"lang": lang, "name": draw(name_st()), "tags": draw(tags_st()), "tl": draw(st.integers(0, 30)),
            "desc": draw(desc_st()), "items": [],
            "kw": {k: draw(st.integers(0, 6)) for k in ("feature", "background", "scenario", "scenario_outline",
                                                        "examples", "rule")}}
    fbg = False
    if draw(st.integers(0, 2)) == 0:
        feat["bg"] = draw(steps_st(False, 3))
        feat["bgname"] = draw(name_st())
        feat["bgdesc"] = draw(desc_st())
        fbg = bool(feat["bg"])
    for _ in range(draw(st.integers(0, 3))):
        feat["items"].append(draw(st.one_of(scenario_st(fbg), scenario_st(fbg), outline_st(fbg))))
    for _ in range(draw(st.integers(0, 3)) if draw(st.booleans()) else 0):
        rule = {"k": "r", "name": draw(name_st()), "tags": draw(tags_st()), "tl": draw(st.integers(0, 30)),
                "desc": draw(desc_st()), "items": []}
        rbg = False
        if draw(st.integers(0, 2)) == 0:
            rule["bg"] = draw(steps_st(fbg, 2))
            rule["bgname"] = draw(name_st())
            rbg = bool(rule["bg"])
        for _ in range(draw(st.integers(0, 3))):
            rule["items"].append(draw(st.one_of(scenario_st(fbg or rbg), outline_st(fbg or rbg))))
        feat["items"].append(rule)
    if draw(st.integers(0, 2)):
        feat["noise"] = draw(st.lists(st.integers(0, 200), min_size=1, max_size=12))
    return feat


# ---------------------------------------------------------------------------
# comparison
# ---------------------------------------------------------------------------
class Cmp(object):
    def __init__(self, res, route):
        self.res = res
        self.route = route
        self.ok = True

    def eq(self, what, got, want, clause):
        if got != want:
            self.ok = False
            self.res.fail("C04.%s" % clause, "[%s] %s: parsed %r, written %r" % (self.route, what, got, want))
            return False
        return True


def cmp_tags(c, where, obj_tags, facts):
    got = [(str(t), t.line) for t in obj_tags]
    want = [(t, ln) for t, ln in facts]
    c.eq("%s tags" % where, [t for t, _ in got], [t for t, _ in want], "tags")
    c.eq("%s tag lines" % where, [ln for _, ln in got], [ln for _, ln in want], "tag-line")


def cmp_steps(c, where, steps, facts):
    if not c.eq("%s number of steps" % where, len(steps), len(facts), "structure"):
        return
    for i, (s, f) in enumerate(zip(steps, facts)):
        w = "%s step#%d" % (where, i)
        c.eq(w + " name", s.name, f["name"], "step-name")
        c.eq(w + " keyword", s.keyword, f["keyword"], "step-keyword")
        c.eq(w + " step_type", s.step_type, f["step_type"], "step-type")
        c.eq(w + " line", s.line, f["line"], "line.step")
        if f["text"] is None:
            c.eq(w + " text", s.text, None, "docstring")
        else:
            c.eq(w + " text", None if s.text is None else str(s.text), f["text"], "docstring")
            if s.text is not None:
                c.eq(w + " text line", s.text.line, f["text_line"], "line.docstring")
        if f["table"] is None:
            c.eq(w + " table", s.table, None, "table")
        elif s.table is None:
            c.eq(w + " table", None, f["table"]["headings"], "table")
        else:
            c.eq(w + " table headings", list(s.table.headings), f["table"]["headings"], "table")
            c.eq(w + " table rows", [list(r.cells) for r in s.table.rows], f["table"]["rows"], "table")
            c.eq(w + " table row lines", [s.table.line] + [r.line for r in s.table.rows], f["table"]["lines"],
                 "line.table")


def cmp_scenario(c, obj, f):
    from behave.model import Scenario, ScenarioOutline
    where = "%s %r" % (f["kind"], f["name"])
    want_cls = ScenarioOutline if f["kind"] == "outline" else Scenario
    if not c.eq(where + " class", type(obj), want_cls, "structure"):
        return
    c.eq(where + " name", obj.name, f["name"], "name")
    c.eq(where + " keyword", obj.keyword, f["keyword"], "keyword")
    c.eq(where + " line", obj.line, f["line"], "line.element")
    c.eq(where + " description", list(obj.description), f["description"], "description")
    cmp_tags(c, where, obj.tags, f["tags"])
    cmp_steps(c, where, obj.steps, f["steps"])
    if f["kind"] == "outline":
        if not c.eq(where + " number of examples", len(obj.examples), len(f["examples"]), "structure"):
            return
        for ex, fe in zip(obj.examples, f["examples"]):
            w = where + " examples %r" % fe["name"]
            c.eq(w + " name", ex.name, fe["name"], "name")
            c.eq(w + " keyword", ex.keyword, fe["keyword"], "keyword")
            c.eq(w + " line", ex.line, fe["line"], "line.element")
            cmp_tags(c, w, ex.tags, fe["tags"])
            if ex.table is None:
                c.eq(w + " table", None, fe["headings"], "table")
                continue
            c.eq(w + " headings", list(ex.table.headings), fe["headings"], "table")
            c.eq(w + " rows", [list(r.cells) for r in ex.table.rows], fe["rows"], "table")
            c.eq(w + " row lines", [ex.table.line] + [r.line for r in ex.table.rows],
                 [fe["heading_line"]] + fe["row_lines"], "line.table")


def cmp_background(c, where, obj, f):
    if f is None:
        # a rule gets an implicit empty background when only the feature has one
        if obj is not None and obj.steps:
            c.eq(where + " background", [s.name for s in obj.steps], None, "structure")
        return
    if obj is None:
        c.eq(where + " background", None, f["name"], "structure")
        return
    c.eq(where + " background name", obj.name, f["name"], "name")
    c.eq(where + " background keyword", obj.keyword, f["keyword"], "keyword")
    c.eq(where + " background line", obj.line, f["line"], "line.element")
    c.eq(where + " background description", list(obj.description), f["description"], "description")
    cmp_steps(c, where + " background", obj.steps, f["steps"])


def cmp_feature(c, feature, facts):
    from behave.model import Rule
    if feature is None:
        c.eq("feature", None, facts["name"], "structure")
        return
    c.eq("feature name", feature.name, facts["name"], "name")
    c.eq("feature keyword", feature.keyword, facts["keyword"], "keyword")
    c.eq("feature line", feature.line, facts["line"], "line.element")
    c.eq("feature language", feature.language, facts["language"], "language")
    c.eq("feature description", list(feature.description), facts["description"], "description")
    cmp_tags(c, "feature", feature.tags, facts["tags"])
    cmp_background(c, "feature", feature.background, facts["background"])
    if not c.eq("feature number of items", len(feature.run_items), len(facts["items"]), "structure"):
        return
    for obj, f in zip(feature.run_items, facts["items"]):
        if f["kind"] == "rule":
            if not c.eq("rule class", type(obj), Rule, "structure"):
                continue
            where = "rule %r" % f["name"]
            c.eq(where + " name", obj.name, f["name"], "name")
            c.eq(where + " keyword", obj.keyword, f["keyword"], "keyword")
            c.eq(where + " line", obj.line, f["line"], "line.element")
            c.eq(where + " description", list(obj.description), f["description"], "description")
            cmp_tags(c, where, obj.tags, f["tags"])
            cmp_background(c, where, obj.background, f["background"])
            if not c.eq(where + " number of items", len(obj.run_items), len(f["items"]), "structure"):
                continue
            for o2, f2 in zip(obj.run_items, f["items"]):
                cmp_scenario(c, o2, f2)
        else:
            cmp_scenario(c, obj, f)


def sanitize(feat):
    """Languages without a '*' step keyword (en-tx, sl): the generic step marker is not part of
    the language, so '*' steps are written with the And keyword there."""
    import copy
    from behave import i18n
    kws = i18n.languages[feat.get("lang") or "en"]
    if any(a.startswith(u"*") for a in kws["given"]):
        return feat
    feat = copy.deepcopy(feat)

    def fix(steps):
        for s in steps or []:
            if s.get("kw") == "*":
                s["kw"] = "And"
    fix(feat.get("bg"))
    for item in feat["items"]:
        if item["k"] == "r":
            fix(item.get("bg"))
            for sub in item["items"]:
                fix(sub["steps"])
        else:
            fix(item["steps"])
    return feat


def scratch_dir():
    return os.environ.get("VERIF_TMP") or tempfile.gettempdir()


def classify(res, feat, facts, text):
    nt = False
    if any(i["k"] == "r" for i in feat["items"]):
        res.label("rule")
        nt = True
    outs = [i for i in _all_items(feat) if i["k"] == "o"]
    if any(len(o["ex"]) >= 2 for o in outs):
        res.label("outline>=2examples")
    if any(ex.get("notable") for o in outs for ex in o["ex"]):
        res.label("examples-without-table")
        if any(o["ex"] and o["ex"][-1].get("notable") for o in outs):
            res.label("examples-without-table:last-of-its-outline")
        nt = True
    steps = [s for i in _all_items(feat) for s in i["steps"]] + list(feat.get("bg") or [])
    if any(s.get("text") is not None for s in steps):
        res.label("docstring")
        nt = True
    if u"\\|" in text:
        res.label("escaped-pipe")
        nt = True
    if feat.get("lang", "en") != "en":
        res.label("non-english")
        nt = True
    if feat.get("noise"):
        res.label("noise")
        nt = True
    if any(s.get("kw") in ("And", "But", "*") for s in steps):
        res.label("and-but-star")
    res.nontrivial = nt


def _all_items(feat):
    for i in feat["items"]:
        if i["k"] == "r":
            for j in i["items"]:
                yield j
        else:
            yield i


def check(case):
    # the model prints a diagnostic for Examples sections without a table when an outline's rows are built
    import contextlib
    import io
    with contextlib.redirect_stdout(io.StringIO()):
        return _check(case)


def check_substeps_language(case):
    """History inside a run: a step of a feature written in language L hands a steps text to context.execute_steps()
    -- first one that is no Gherkin at all (ParserError, caught by the step), then well-formed steps in language L:
    keywords, step types and names of the sub-steps are those written in the text, in L."""
    from behave import i18n, parser
    from behave.configuration import Configuration
    from behave.matchers import ParseMatcher
    from behave.parser import ParserError
    from behave.runner import ModelRunner
    from behave.step_registry import StepRegistry
    res = CaseResult()
    lang = case["lang"]
    kws = i18n.languages[lang]

    def first(kind, k=0):
        words = [w for w in kws[kind] if w.strip() != u"*"]
        return words[k % len(words)]
    k = case.get("alias", 0)
    subs = [(first("given", k), "given", u"sub 1"), (first("and", k), "given", u"sub 2"),
            (first("when", k), "when", u"sub 3"), (first("then", k), "then", u"sub 4"),
            (first("but", k), "then", u"sub 5")]
    good = u"\n".join(u"%s%s" % (kw, name) for kw, _t, name in subs)
    bad = case.get("bad") or u"Bogus words that are no step at all"
    text = u"# language: %s\n%s: F\n  %s: S\n    %souter step\n    %ssecond outer step\n" % (
        lang, kws["feature"][0], kws["scenario"][0], first("given"), first("when"))
    feature = parser.parse_feature(text, filename="features/sub.feature")
    seen = []
    notes = {}

    def outer(context):
        try:
            context.execute_steps(bad)
            notes["bad"] = "accepted"
        except ParserError:
            notes["bad"] = "ParserError"

    def second(context):
        context.execute_steps(good)

    def sub(context, n):
        seen.append(n)
    registry = StepRegistry()
    for stype, pattern, fn in (("step", u"outer step", outer), ("step", u"second outer step", second),
                               ("step", u"sub {n:d}", sub)):
        registry.steps[stype].append(ParseMatcher(fn, pattern, step_type=stype))
    config = Configuration(["--no-color", "--no-summary", "-f", "null"], load_config=False)
    config.reporters = []
    runner = ModelRunner(config, [feature], step_registry=registry)
    import io
    import sys
    old = sys.stdout
    sys.stdout = io.StringIO()
    try:
        runner.run()
    finally:
        sys.stdout = old
    res.nontrivial = lang != "en"
    res.label("substeps-after-rejected-text", "substeps:" + ("english" if lang == "en" else "non-english"))
    steps = list(feature.scenarios[0].steps)
    if notes.get("bad") != "ParserError":
        res.label("substeps:first-text-" + str(notes.get("bad")))
    if steps[1].status.name != "passed" or seen != [1, 2, 3, 4, 5]:
        res.fail("C04.substeps.language", "language %s: after a rejected steps text, the well-formed steps %r given to "
                 "execute_steps() ended %s (sub-steps executed: %s): %s"
                 % (lang, good, steps[1].status.name, seen, (steps[1].error_message or u"").strip()[-300:]))
    return res


def substeps_enumeration():
    from behave import i18n
    for lang in sorted(i18n.languages):
        for alias in (0, 1):
            yield {"kind": "substeps", "lang": lang, "alias": alias}


def _check(case):
    from behave import parser
    res = CaseResult()
    kind = case.get("kind", "doc")
    if kind == "substeps":
        return check_substeps_language(case)
    feat = sanitize(case["feature"])
    case = dict(case, feature=feat)
    if kind in ("doc", "alias"):
        text, facts = render_feature(feat)
        if case.get("crlf"):
            # a file written on Windows (or, crlf == 2, with bare CR line terminators): same document
            text = text.replace(u"\n", u"\r\n" if case["crlf"] is True or case["crlf"] == 1 else u"\r")
        model = parser.parse_feature(text, language=feat.get("lang"), filename="features/doc.feature")
        cmp_feature(Cmp(res, "parse_feature"), model, facts)
        if kind == "alias" or case.get("via_file"):
            # via a file with a '# language:' header (line numbers shift by one)
            text2, facts2 = render_feature(feat, language_header=True)
            if case.get("crlf"):
                text2 = text2.replace(u"\n", u"\r\n" if case["crlf"] is True or case["crlf"] == 1 else u"\r")
            fd, path = tempfile.mkstemp(suffix=".feature", prefix="vf-c04-", dir=scratch_dir())
            try:
                with os.fdopen(fd, "wb") as f:
                    f.write(text2.encode("utf-8"))
                model2 = parser.parse_file(path)
                # the run has ANOTHER default language (--lang / language= argument): the header of the file decides
                other = ("de", "fr", "ja", "en")[(len(text2) + len(feat.get("lang") or "en")) % 4]
                model3 = parser.parse_file(path, language=other) if other != (feat.get("lang") or "en") else None
            finally:
                os.unlink(path)
            cmp_feature(Cmp(res, "parse_file"), model2, facts2)
            if model3 is not None:
                cmp_feature(Cmp(res, "parse_file(language=%s) of a file with a '# language: %s' header"
                                % (other, feat.get("lang") or "en")), model3, facts2)
                res.label("via-file:other-default-language")
            res.evals = 2
            res.label("via-file")
            if model2 is not None and not res.violations:
                check_parser_reuse(res, model2, facts2, text2)
        classify(res, feat, facts, text)
        if case.get("crlf"):
            res.label("line-endings:crlf" if case["crlf"] is True or case["crlf"] == 1 else "line-endings:cr")
        if kind == "alias":
            res.label("alias")
            res.nontrivial = True
        if model is not None and not res.violations:
            check_describe_roundtrip(res, model)
    elif kind == "partial":
        check_partial(res, case)
    else:
        raise ValueError(kind)
    return res


def _scenario_facts(facts):
    for f in facts["items"]:
        for g in (f["items"] if f["kind"] == "rule" else [f]):
            yield g


def check_parser_reuse(res, feature, facts, text):
    """History: the parser object that parsed a file with a '# language:' header is used again for a
    steps text in that language -- what Context.execute_steps() does (feature.parser.parse_steps)."""
    from behave import i18n
    from behave.parser import ParserError
    kws = i18n.languages[facts["language"]]
    primary = set(k.strip() for kind in ("given", "when", "then") for k in kws[kind]) - \
        set(k.strip() for kind in ("and", "but") for k in kws[kind]) - set([u"*"])
    lines = text.splitlines()
    for sc in _scenario_facts(facts):
        steps = sc.get("steps") or []
        if not steps or any(s["text"] is not None or s["table"] is not None for s in steps):
            continue
        if steps[0]["keyword"] not in primary:
            continue        # its type would be inherited from a step outside this text
        part = u"\n".join(lines[s["line"] - 1] for s in steps)
        try:
            got = feature.parser.parse_steps(part)
        except ParserError as e:
            res.fail("C04.parser-reuse.rejected", "feature.parser (language %s) rejects the steps %r of its own feature: %s"
                     % (facts["language"], part, str(e).replace("\n", " ")))
            return
        want = [(s["keyword"], s["step_type"], s["name"]) for s in steps]
        have = [(s.keyword, s.step_type, s.name) for s in got]
        if want != have:
            res.fail("C04.parser-reuse.steps", "feature.parser (language %s) parses %r as %r, expected %r"
                     % (facts["language"], part, have, want))
        res.label("parser-reuse")
        if facts["language"] != "en":
            res.label("parser-reuse:non-english")
        return


def check_describe_roundtrip(res, feature):
    """describe_table / describe_docstring output parsed again inside a step gives the same data."""
    from behave import parser
    from behave.model_describe import ModelDescriptor
    count = 0
    for sc in feature.walk_scenarios(with_outlines=True):
        for step in sc.steps:
            if step.table is not None:
                cells = [c for row in [step.table.headings] + [r.cells for r in step.table.rows] for c in row]
                if any(u"\\" in c or u"\n" in c for c in cells):
                    continue
                text = u"Given a step\n" + ModelDescriptor.describe_table(step.table, u"  ")
                steps = parser.parse_steps(text)
                count += 1
                got = steps[0].table
                if got is None or list(got.headings) != list(step.table.headings) or \
                        [list(r.cells) for r in got.rows] != [list(r.cells) for r in step.table.rows]:
                    res.fail("C04.describe.table-roundtrip", "table %r described as %r parses to %r"
                             % ([step.table.headings] + [r.cells for r in step.table.rows], text,
                                got and [got.headings] + [r.cells for r in got.rows]))
            elif step.text is not None and u'"""' not in step.text:
                text = u"Given a step\n" + ModelDescriptor.describe_docstring(step.text, u"  ")
                steps = parser.parse_steps(text)
                count += 1
                if steps[0].text is None or str(steps[0].text) != str(step.text):
                    res.fail("C04.describe.docstring-roundtrip", "doc-string %r described as %r parses to %r"
                             % (str(step.text), text, steps[0].text))
    if count:
        res.label("describe-roundtrip")


def check_partial(res, case):
    """parse_steps / parse_scenario / parse_rule / parse_tags on the corresponding document part."""
    from behave import parser
    feat = case["feature"]
    entry = case["entry"]
    lang = feat.get("lang")
    # render a one-item feature and cut the part out of it, re-basing the line numbers
    text, facts = render_feature(feat)
    lines = text.split(u"\n")
    res.label("entry:" + entry)
    if feat.get("noise") and any(l.strip().startswith(u"#") for l in lines):
        res.label("entry:" + entry + ":with-comment-lines")
    res.nontrivial = True
    if entry == "tags":
        tag_facts = facts["tags"]
        if not tag_facts:
            res.nontrivial = False
            return
        first = min(ln for _t, ln in tag_facts)
        last = max(ln for _t, ln in tag_facts)
        part = u"\n".join(lines[first - 1:last])
        tags = parser.parse_tags(part)
        c = Cmp(res, "parse_tags")
        c.eq("tags", [str(t) for t in tags], [t for t, _ in tag_facts], "tags")
        c.eq("tag lines", [getattr(t, "line", None) for t in tags], [ln - first + 1 for _t, ln in tag_facts], "line.tag")
        # the same text inside an indented triple-quoted block: blank lines before the first tag line count as lines
        lead = 1 + len(tag_facts) % 3
        tags2 = parser.parse_tags(u"\n" * (lead - 1) + u"   \n" + part)
        c.eq("tags after leading blank lines", [str(t) for t in tags2], [t for t, _ in tag_facts], "tags")
        c.eq("tag lines after %d leading blank lines" % lead, [getattr(t, "line", None) for t in tags2],
             [ln - first + 1 + lead for _t, ln in tag_facts], "line.tag")
        return
    item_facts = facts["items"][0] if facts["items"] else None
    if item_facts is None:
        res.nontrivial = False
        return
    if entry == "rule":
        if item_facts["kind"] != "rule":
            res.nontrivial = False
            return
        start = min([item_facts["line"]] + [ln for _t, ln in item_facts["tags"]])
        part = u"\n".join(lines[start - 1:])
        shifted = _shift(item_facts, start - 1)
        rule = parser.parse_rule(part, language=lang, filename="features/part.feature")
        c = Cmp(res, "parse_rule")
        from behave.model import Rule
        if not c.eq("rule class", type(rule), Rule, "structure"):
            return
        c.eq("rule name", rule.name, shifted["name"], "name")
        c.eq("rule line", rule.line, shifted["line"], "line.element")
        cmp_tags(c, "rule", rule.tags, shifted["tags"])
        cmp_background(c, "rule", rule.background, shifted["background"])
        if c.eq("rule number of items", len(rule.run_items), len(shifted["items"]), "structure"):
            for o2, f2 in zip(rule.run_items, shifted["items"]):
                cmp_scenario(c, o2, f2)
        return
    if item_facts["kind"] == "rule":
        res.nontrivial = False
        return
    if entry == "scenario":
        start = min([item_facts["line"]] + [ln for _t, ln in item_facts["tags"]])
        part = u"\n".join(lines[start - 1:])
        shifted = _shift(item_facts, start - 1)
        obj = parser.parse_scenario(part, language=lang, filename="features/part.feature")
        cmp_scenario(Cmp(res, "parse_scenario"), obj, shifted)
    elif entry == "steps":
        if not item_facts["steps"]:
            res.nontrivial = False
            return
        start = item_facts["steps"][0]["line"]
        end = len(lines)
        if item_facts["kind"] == "outline" and item_facts["examples"]:
            ex0 = item_facts["examples"][0]
            end = min([ex0["line"]] + [ln for _t, ln in ex0["tags"]]) - 1
        part = u"\n".join(lines[start - 1:end])
        shifted = _shift(item_facts, start - 1)
        steps = parser.parse_steps(part, language=lang, filename="features/part.feature")
        cmp_steps(Cmp(res, "parse_steps"), "steps", steps, shifted["steps"])


def _shift(obj, delta):
    """Deep copy of facts with every line number reduced by delta."""
    if isinstance(obj, dict):
        out = {}
        for k, v in obj.items():
            if k in ("line", "text_line", "heading_line") and isinstance(v, int):
                out[k] = v - delta
            elif k in ("lines", "row_lines"):
                out[k] = [x - delta for x in v]
            elif k == "tags":
                out[k] = [(t, ln - delta) for t, ln in v]
            else:
                out[k] = _shift(v, delta)
        return out
    if isinstance(obj, list):
        return [_shift(x, delta) for x in obj]
    return obj


# ---------------------------------------------------------------------------
def alias_enumeration():
    """One document per (language, keyword kind, alias index)."""
    from behave import i18n
    for lang in sorted(i18n.languages):
        kws = i18n.languages[lang]
        for kind in ("feature", "background", "scenario", "scenario_outline", "examples", "rule"):
            for idx in range(len(kws[kind])):
                feat = _alias_doc(lang)
                feat["kw"] = {kind: idx}
                yield {"kind": "alias", "feature": feat, "what": [lang, kind, idx]}
        for kind, kw in (("given", "Given"), ("when", "When"), ("then", "Then"), ("and", "And"), ("but", "But")):
            n = len([a for a in kws[kind] if not a.startswith(u"*")])
            for idx in range(n):
                feat = _alias_doc(lang)
                for item in _all_items(feat):
                    for s in item["steps"]:
                        if s["kw"] == kw:
                            s["kwi"] = idx
                yield {"kind": "alias", "feature": feat, "what": [lang, kind, idx]}


def _alias_doc(lang):
    return {"lang": lang, "name": u"alias doc", "tags": [u"t1"], "bg": [{"kw": "Given", "name": u"a background step"}],
            "items": [
                {"k": "s", "name": u"first", "tags": [u"t2"], "steps": [
                    {"kw": "Given", "name": u"some precondition"},
                    {"kw": "And", "name": u"another one"},
                    {"kw": "When", "name": u"something happens", "text": u"doc\n  string"},
                    {"kw": "But", "name": u"not that"},
                    {"kw": "Then", "name": u"a result", "table": [[u"h"], [u"1"]]},
                    {"kw": "*", "name": u"a generic step"}]},
                {"k": "o", "name": u"second <c0>", "tags": [], "steps": [
                    {"kw": "When", "name": u"using <c0>"}, {"kw": "Then", "name": u"ok"}],
                 "ex": [{"name": u"ex", "tags": [u"e"], "cols": [u"c0"], "rows": [[u"v1"], [u"v2"]]}]},
                {"k": "r", "name": u"a rule", "tags": [u"r"], "bg": [{"kw": "Given", "name": u"rule background"}],
                 "items": [{"k": "s", "name": u"in rule", "tags": [], "steps": [
                     {"kw": "And", "name": u"inherits given"}, {"kw": "Then", "name": u"done"}]}]}]}


@st.composite
def partial_case(draw):
    entry = draw(st.sampled_from(["steps", "scenario", "rule", "tags"]))
    lang = draw(st.sampled_from(["en", "en", "de", "fr", "ja"]))
    if entry == "tags":
        feat = draw(feature_st(lang="en"))
        feat["tags"] = draw(st.lists(st.sampled_from(SAFE_TAGS), min_size=1, max_size=4, unique=True))
        feat.pop("noise", None)
        return {"kind": "partial", "entry": entry, "feature": feat}
    feat = {"lang": lang, "name": u"F", "tags": [], "items": []}
    if entry == "rule":
        rule = {"k": "r", "name": draw(name_st()), "tags": draw(tags_st()), "tl": draw(st.integers(0, 30)),
                "desc": draw(desc_st()), "items": []}
        if draw(st.booleans()):
            rule["bg"] = draw(steps_st(False, 2))
        rbg = bool(rule.get("bg"))
        for _ in range(draw(st.integers(0, 3))):
            rule["items"].append(draw(st.one_of(scenario_st(rbg), outline_st(rbg))))
        feat["items"] = [rule]
    else:
        feat["items"] = [draw(st.one_of(scenario_st(False), outline_st(False)))]
    if draw(st.booleans()):
        # blank and comment lines between the lines of the part (a steps text given to execute_steps() may
        # carry comments like any other Gherkin text)
        feat["noise"] = draw(st.lists(st.integers(0, 200), min_size=1, max_size=12))
    return {"kind": "partial", "entry": entry, "feature": feat}


def explore(rec):
    quick = rec.tier == "quick"
    rec.enum("all-languages-all-aliases", alias_enumeration())
    rec.enum("all-languages/sub-steps-after-a-rejected-steps-text", substeps_enumeration())
    rec.hyp("random-documents", st.builds(lambda f, c: {"kind": "doc", "feature": f, "crlf": c}, feature_st(),
                                          st.sampled_from([False, False, True, 2])), 4000 if quick else 80000)
    rec.hyp("random-documents-via-file", st.builds(lambda f, c: {"kind": "doc", "feature": f, "via_file": True, "crlf": c},
                                                   feature_st(), st.sampled_from([False, True, 2])),
            500 if quick else 8000)
    rec.hyp("partial-entry-points", partial_case(), 2000 if quick else 30000)


def required_labels(tier):
    return ["examples-without-table:last-of-its-outline", "rule", "outline>=2examples", "docstring", "escaped-pipe", "non-english", "noise", "and-but-star", "alias",
            "via-file", "via-file:other-default-language", "line-endings:crlf", "line-endings:cr", "parser-reuse", "parser-reuse:non-english", "describe-roundtrip", "entry:steps", "entry:scenario", "entry:rule", "entry:tags", "entry:steps:with-comment-lines",
            "substeps:non-english"]


KNOWN_PREDICATES = {}


RULE = RULE + " " + ("History: after parse_file() of a document with a '# language:' header the feature's parser object parses a steps text in that language (what context.execute_steps does) and must report the scenario's own steps.")
RULE = RULE + " " + ('One Examples section in eight has no table at all (tolerated by the parser: its table is None and later tables stay with their steps).')
RULE = RULE + " " + ('For every language: a running step hands context.execute_steps() first a text that is no Gherkin (ParserError, caught) and then well-formed steps in the feature language: all of them are parsed and executed as written.')
