# -*- coding: utf-8 -*-
"""Coverage-guided fuzzing of behave.parser with atheris (C05, thorough tier).

Each shard starts one child process (`python -m vf.props.c05_fuzz child ...`): libFuzzer
drives `one_input(bytes)`; the bytes are read as UTF-8 text (keyword dictionary supplied via
-dict=, corpus either empty or a few rendered documents).  The semantic oracle of C05 runs
INSIDE the target; inputs that violate it are written to a findings file (deduplicated by
clause) and the campaign continues.  The parent re-checks every finding through the normal
check(), so a finding becomes a VIOLATION with a replay file like any other case.
"""
from __future__ import annotations

import json
import os
import re
import shutil
import subprocess
import sys
import tempfile

ROOT = os.path.dirname(os.path.dirname(os.path.dirname(os.path.abspath(__file__))))
DEPS = os.path.join(ROOT, ".deps")

DICT_WORDS = [u"Feature:", u"Rule:", u"Background:", u"Scenario:", u"Scenario Outline:", u"Examples:", u"Example:",
              u"Given ", u"When ", u"Then ", u"And ", u"But ", u"* ", u"@", u"|", u"\\|", u'"""', u"'''", u"#",
              u"# language: ", u"de", u"fr", u"ja", u"ht", u"Funktionalität:", u"Szenario:", u"Grundlage:", u"Angenommen ",
              u"Wenn ", u"Dann ", u"Und ", u"Aber ", u"Beispiele:", u"Szenariogrundriss:", u"機能:", u"シナリオ:", u"前提",
              u"背景:", u"例:", u"\n", u"  ", u":", u"<a>", u"Scenarios:", u"Ability:", u"Scenario Template:"]


def available():
    return os.path.isdir(os.path.join(DEPS, "atheris"))


def campaign(rec):
    if not available():
        rec.labels["atheris:unavailable"] += 1
        return
    runs = int(os.environ.get("VERIF_ATHERIS_RUNS", "250000"))
    base = os.environ.get("VERIF_TMP") or tempfile.gettempdir()
    work = tempfile.mkdtemp(prefix="vf-atheris-%d-" % rec.shard, dir=base)
    try:
        corpus = os.path.join(work, "corpus")
        os.makedirs(corpus)
        seeded = rec.shard % 2 == 1
        if seeded:
            write_seed_corpus(corpus)
        dict_path = os.path.join(work, "gherkin.dict")
        with open(dict_path, "w", encoding="utf-8") as f:
            for w in DICT_WORDS:
                esc = "".join("\\x%02x" % b for b in w.encode("utf-8"))
                f.write('"%s"\n' % esc)
        findings = os.path.join(work, "findings.jsonl")
        env = dict(os.environ)
        env["PYTHONPATH"] = os.pathsep.join([ROOT, DEPS, env.get("BEHAVE_SRC", "/repo")])
        seed = rec.derive_seed("atheris") or 1
        cmd = [sys.executable, "-m", "vf.props.c05_fuzz", "child", findings, corpus,
               "-runs=%d" % runs, "-seed=%d" % seed, "-dict=%s" % dict_path, "-max_len=600",
               "-timeout=20", "-rss_limit_mb=2048", "-print_final_stats=1"]
        p = subprocess.run(cmd, env=env, cwd=work, stdout=subprocess.PIPE, stderr=subprocess.STDOUT,
                           timeout=3 * 3600)
        out = p.stdout.decode("utf-8", "replace")
        m = re.search(r"stat::number_of_executed_units:\s*(\d+)", out)
        executed = int(m.group(1)) if m else 0
        rec.labels["atheris:%s-corpus" % ("seeded" if seeded else "empty")] += 1
        rec.evaluations += executed
        rec.subchecks["atheris-executions"] += executed
        if executed == 0:
            rec.harness_errors.append({"case": "atheris", "trace": "atheris child produced no executions:\n" + out[-2000:]})
        if os.path.exists(findings):
            with open(findings, encoding="utf-8") as f:
                for line in f:
                    item = json.loads(line)
                    rec.record({"kind": "text", "origin": "atheris", "text": item["text"]}, sub="atheris-findings")
        # timeouts / crashes of the child itself (libFuzzer artefacts)
        for name in os.listdir(work):
            if name.startswith(("crash-", "timeout-", "oom-")):
                data = open(os.path.join(work, name), "rb").read()
                text = data.decode("utf-8", "replace")
                rec.record({"kind": "text", "origin": "atheris-" + name.split("-")[0], "text": text},
                           sub="atheris-findings")
    finally:
        shutil.rmtree(work, ignore_errors=True)


def write_seed_corpus(corpus):
    from ..program import render_feature
    from . import c04
    docs = []
    for lang in ("en", "de", "fr", "ja"):
        text, _ = render_feature(c04.sanitize(c04._alias_doc(lang)))
        docs.append(text)
    docs.append(u"Feature: f\n  Scenario: s\n    Given a step\n      | a | b |\n      | 1 | 2 |\n")
    docs.append(u"@t\nFeature: f\n  Background:\n    Given b\n  Rule: r\n    Example: e\n      When x\n      \"\"\"\n      doc\n      \"\"\"\n")
    for i, d in enumerate(docs):
        with open(os.path.join(corpus, "seed%d" % i), "wb") as f:
            f.write(d.encode("utf-8"))


# ---------------------------------------------------------------------------
# child process
# ---------------------------------------------------------------------------
def child_main(argv):
    findings_path, corpus = argv[0], argv[1]
    fuzz_args = argv[2:]
    import atheris
    with atheris.instrument_imports(include=["behave.parser", "behave.model", "behave.model_core"]):
        import behave.parser  # noqa
    import logging
    logging.getLogger("behave").setLevel(logging.CRITICAL)
    from vf.core import CaseResult
    from vf.props import c05
    seen = set()

    def one_input(data):
        text = data.decode("utf-8", "replace")
        res = CaseResult()
        for entry in c05.ENTRIES:
            c05.probe(res, entry, text)
        for v in res.violations:
            if v.clause not in seen:
                seen.add(v.clause)
                with open(findings_path, "a", encoding="utf-8") as f:
                    f.write(json.dumps({"clause": v.clause, "text": text}) + "\n")

    atheris.Setup([sys.argv[0]] + fuzz_args + [corpus], one_input)
    atheris.Fuzz()


if __name__ == "__main__":
    if len(sys.argv) > 1 and sys.argv[1] == "child":
        child_main(sys.argv[2:])
