# -*- coding: utf-8 -*-
"""C11 -- Step matching and dispatch: full-text match, right definition, right arguments."""
from __future__ import annotations

import copy
import json
import os
import re
import importlib
import shutil
import sys
import tempfile

import parse as _parse
from hypothesis import strategies as st
from hypothesis.stateful import RuleBasedStateMachine, initialize, precondition, rule

import vf  # noqa: F401  (puts BEHAVE_SRC first on sys.path)
from ..core import CaseResult, HarnessError

ID = "C11"
LEVEL = "exploration"
RULE = ("(a) 'patterns': an abstract pattern (literal words interleaved with fields, never two fields without a literal "
        "between them) is rendered for one matcher kind (parse, cfparse, re, re0 with explicit ^...$, cucumber-expressions), "
        "registered in a fresh StepRegistry and looked up with its exact instance (field instances drawn per field from value "
        "sets that cannot contain a literal of the pattern, so values and spans are known by construction) and with derived "
        "texts (wrong case of a literal, extra prefix / suffix, changed literal), for the registered and for another step type; "
        "(b) 'histories': a Hypothesis RuleBasedStateMachine produces op lists (use_step_matcher, register_type, register via "
        "the step decorator incl. variants of already registered patterns: same again, other type, other function, "
        "generalised, specialised, retyped; lookups of instances / mutations of registered or fresh patterns) which check() "
        "replays against a fresh registry and the reference model; (c) 're-register': complete small enumeration of "
        "registering the same function + pattern twice per matcher kind and step type; (d) 'step-modules': generated step "
        "files loaded by load_step_modules, each file written for the default matcher until it switches itself. "
        "Oracle: own anchored case-sensitive regex per abstract pattern; first hit in (type list, then generic list); "
        "arguments compared exactly when the split is unique (all-greedy == all-lazy reference match). "
        "Non-trivial = pattern with >= 2 fields, or history/modules with >= 3 registrations over >= 2 step types.")
ASSUMPTIONS = [
    "parse field semantics used: {x} any non-empty text, {x:d} optional sign + decimal digits -> int, {x:w} \\w+ -> str, "
    "{x:f} [sign]digits.digits -> float; texts never contain 0x/0b/0o prefixed numbers, '+' signs, newlines or "
    "leading/trailing blanks",
    "when several splits of a text over the fields of a parse/cfparse pattern exist, only binding, winner and span "
    "consistency are checked (which split parse chooses is left open)",
    "a different function registered with the IDENTICAL pattern text that does not match itself as a text "
    "(e.g. 'foo {n:d}' twice) is left open (never generated): the statement only speaks of patterns the existing definition matches",
    "the same function registered again with the same text under a matcher of different anchoring ('re' vs parse/cfparse), "
    "or with the same regex written once for 're' and once with ^...$ for 're0', is left open (never generated)",
    "a regex group that did not participate (optional group) must be reported with value None; its offsets are left open",
    "re0 patterns are always written with explicit ^ and $ (documented requirement of this matcher)",
    "custom types are registered while parse/cfparse is current and are visible to both (ParseMatcher and derived classes)",
    "cucumber-expressions (experimental matcher) only in sub-check (a) with {int} {word} {float} {string}",
]
WATCHDOG_S = {"quick": 900, "thorough": 4 * 3600}

PARSE_KINDS = ("parse", "cfparse")
RE_KINDS = ("re", "re0")
KINDS = PARSE_KINDS + RE_KINDS
ALL_KINDS = KINDS + ("cuke",)
STYPES = ("given", "when", "then", "step")
LOOK_TYPES = ("given", "when", "then")
NAMES = ["a", "b", "n", "x", "name", "count", "val", "item_id"]
NFUNCS = 6

LIT = ["foo", "bar", "baz", "qux", "the", "with", "and", "user", "item", u"caf\xe9"]
LIT_SMALL = ["foo", "bar", "baz"]
CHANGED = ["nope", "other", "bars"]
EXTRA = ["zzq", "Extra", "99"]
RESERVED = {"red", "green", "blue", "on", "off"}
ANY_WORDS = ["Alice", "Bob", u"Zo\xeb", "X1", "42", "b-12", u"\xdcnal", "_id", "R2D2", "3.5", "-7"]
W_WORDS = ["Alice", "Bob", u"Zo\xeb", "X1", "_id", "R2D2", "42"]
CAP_WORDS = ["Alice", "Bob", "Zed"]
COLORS = ["red", "green", "blue"]


# ---------------------------------------------------------------------------
# custom type converters (own code; registered through behave.register_type)
# ---------------------------------------------------------------------------
@_parse.with_pattern(r"\d+")
def conv_num(text):
    return int(text)


@_parse.with_pattern(r"red|green|blue")
def conv_color(text):
    return text.upper()


@_parse.with_pattern(r"on|off")
def conv_flag(text):
    return text == "on"


CONVERTERS = {"Num": conv_num, "Color": conv_color, "Flag": conv_flag}


# -- a second converter per type name (same text pattern, another conversion): registering a type name
#    again replaces the converter for step definitions made AFTERWARDS
@_parse.with_pattern(r"\d+")
def conv_num_alt(text):
    return ("alt", int(text))


@_parse.with_pattern(r"red|green|blue")
def conv_color_alt(text):
    return ("alt", text.upper())


@_parse.with_pattern(r"on|off")
def conv_flag_alt(text):
    return ("alt", text == "on")


CONVERTERS_ALT = {"Num": conv_num_alt, "Color": conv_color_alt, "Flag": conv_flag_alt}
# type -> (greedy regex, lazy regex, python conversion)
PARSE_TYPES = {
    "any": (r".+", r".+?", lambda s: s),
    "d": (r"[-+]?[0-9]+", r"[-+]?[0-9]+?", int),
    "w": (r"\w+", r"\w+?", lambda s: s),
    "f": (r"[-+]?\d*\.\d+", r"[-+]?\d*?\.\d+?", float),
    "Num": (r"\d+", r"\d+?", int),
    "Color": (r"red|green|blue", r"red|green|blue", lambda s: s.upper()),
    "Flag": (r"on|off", r"on|off", lambda s: s == "on"),
}
PARSE_SPEC = {"any": "", "d": "d", "w": "w", "f": "f"}
RE_CLASSES = {"digits": r"\d+", "word": r"\w+", "cap": r"[A-Z][a-z]+", "any": r".+",
              "float": r"-?\d+\.\d+", "color": r"red|green|blue"}
CUKE_TYPES = {"int": (r"-?\d+", int), "word": (r"[^\s]+", lambda s: s), "float": (r"-?\d*\.\d+", float),
              "string": (r'"[^"]*"', lambda s: s[1:-1])}

CALLS = []          # (function id, args, kwargs) appended by every generated step function


class Invalid(Exception):
    """The case is outside the generated domain (used by valid_case for the shrinker)."""


# ---------------------------------------------------------------------------
# abstract patterns: validation, rendering, text construction
# ---------------------------------------------------------------------------
def is_literal_word(w):
    return (isinstance(w, str) and w.isalpha() and w == w.lower() and w != w.upper()
            and w not in RESERVED)


def fields_of(pat):
    return [p for p in pat["parts"] if "f" in p]


def validate_pattern(pat, types=None):
    if not isinstance(pat, dict):
        raise Invalid("pattern")
    kind, parts = pat.get("kind"), pat.get("parts")
    if kind not in ALL_KINDS or not isinstance(parts, list) or not parts:
        raise Invalid("pattern kind/parts")
    names = set()
    prev_field = False
    for i, p in enumerate(parts):
        if not isinstance(p, dict):
            raise Invalid("part")
        if "l" in p:
            if not is_literal_word(p["l"]) or len(p) != 1:
                raise Invalid("literal %r" % (p,))
            prev_field = False
            continue
        if "f" not in p or prev_field:
            raise Invalid("adjacent fields / unknown part")
        prev_field = True
        t, n = p["f"], p.get("n")
        if n is not None:
            if n not in NAMES or n in names:
                raise Invalid("name")
            names.add(n)
        if kind in PARSE_KINDS:
            if t not in PARSE_TYPES:
                raise Invalid("type")
            if t in CONVERTERS and types is not None and t not in types:
                raise Invalid("type %s not registered" % t)
            card = p.get("card")
            if card is not None and (kind != "cfparse" or t not in CONVERTERS or card not in ("+", "?", "*")):
                raise Invalid("card")
            if p.get("opt"):
                raise Invalid("opt")
        elif kind in RE_KINDS:
            if t not in RE_CLASSES or p.get("card") is not None:
                raise Invalid("re class")
            if p.get("opt") and (i == 0 or p.get("q")):
                raise Invalid("optional group first / quoted")
        else:
            if t not in CUKE_TYPES or n is not None or p.get("card") is not None or p.get("opt") or p.get("q"):
                raise Invalid("cuke field")


def item_regex(kind, p, lazy=False):
    t = p["f"]
    if kind in PARSE_KINDS:
        return PARSE_TYPES[t][1 if lazy else 0]
    if kind in RE_KINDS:
        return RE_CLASSES[t]
    return CUKE_TYPES[t][0]


def validate_insts(pat, insts):
    kind = pat["kind"]
    flds = [(i, p) for i, p in enumerate(pat["parts"]) if "f" in p]
    if not isinstance(insts, list) or len(insts) != len(flds):
        raise Invalid("instances")
    last = len(pat["parts"]) - 1
    for (i, p), inst in zip(flds, insts):
        rx = re.compile(item_regex(kind, p))
        if p.get("card") is not None:
            if not isinstance(inst, list) or not all(isinstance(x, str) and rx.fullmatch(x) for x in inst):
                raise Invalid("card instance")
            if (p["card"] == "+" and not inst) or (p["card"] == "?" and len(inst) > 1):
                raise Invalid("card count")
            if not inst and i in (0, last):
                raise Invalid("empty field at the border of the text")
            continue
        if inst is None:
            if not p.get("opt"):
                raise Invalid("missing instance")
            continue
        if not isinstance(inst, str) or not inst or not rx.fullmatch(inst) or '"' in inst.strip('"'):
            raise Invalid("instance %r" % (inst,))
        if inst != inst.strip() or "\n" in inst or "  " in inst:
            raise Invalid("blanks")
        if kind == "cuke" and p["f"] == "string":
            inst = inst[1:-1]
        if any(w.isalpha() and w == w.lower() and w not in RESERVED for w in inst.split(" ")):
            raise Invalid("instance contains a literal-like word")


def render_field(kind, p):
    t, n = p["f"], p.get("n")
    if kind in PARSE_KINDS:
        spec = PARSE_SPEC.get(t, t) + (p.get("card") or "")
        out = "{%s%s}" % (n or "", (":" + spec) if spec else "")
    elif kind in RE_KINDS:
        out = ("(?P<%s>%s)" % (n, RE_CLASSES[t])) if n else "(%s)" % RE_CLASSES[t]
    else:
        out = "{%s}" % t
    if p.get("q"):
        out = '"%s"' % out
    return out


def render(pat):
    kind = pat["kind"]
    out = []
    for i, p in enumerate(pat["parts"]):
        if "l" in p:
            out.append((" " if i else "") + p["l"])
        elif p.get("opt"):
            out.append("(?: %s)?" % render_field(kind, p))
        else:
            out.append((" " if i else "") + render_field(kind, p))
    body = "".join(out)
    return "^%s$" % body if kind == "re0" else body


def convert(kind, p, raw):
    if raw is None:
        return None
    t = p["f"]
    if kind in PARSE_KINDS:
        conv = PARSE_TYPES[t][2]
        card = p.get("card")
        if card is not None:
            items = re.split(r"\s*,\s*", raw) if raw else []
            if card == "?":
                return conv(items[0]) if items else None
            return [conv(x) for x in items]
        return conv(raw)
    if kind in RE_KINDS:
        return raw
    return CUKE_TYPES[t][1](raw)


def build_text(pat, insts, mut=None):
    """-> (text, expected arguments in text order [dict(start,end,original,name,value)])."""
    kind = pat["kind"]
    mut = mut or {"m": "exact"}
    buf = ""
    args = []
    fi = 0
    for i, p in enumerate(pat["parts"]):
        sep = " " if i else ""
        if "l" in p:
            w = p["l"]
            if mut.get("i") == i:
                if mut["m"] == "case":
                    w = w.upper() if mut.get("how") == "upper" else w.capitalize()
                elif mut["m"] == "lit":
                    w = mut["w"]
            buf += sep + w
            continue
        inst = insts[fi]
        fi += 1
        if inst is None:
            args.append({"start": None, "end": None, "original": None, "name": p.get("n"), "value": None})
            continue
        raw = ", ".join(inst) if isinstance(inst, list) else inst
        q = '"' if p.get("q") else ""
        buf += sep + q
        start = len(buf)
        buf += raw
        args.append({"start": start, "end": len(buf), "original": raw, "name": p.get("n"),
                     "value": convert(kind, p, raw)})
        buf += q
    if mut["m"] == "prefix":
        shift = len(mut["w"]) + 1
        buf = mut["w"] + " " + buf
        for a in args:
            if a["start"] is not None:
                a["start"] += shift
                a["end"] += shift
    elif mut["m"] == "suffix":
        buf = buf + " " + mut["w"]
    return buf, args


def validate_mut(pat, mut):
    if not isinstance(mut, dict) or mut.get("m") not in ("exact", "case", "lit", "prefix", "suffix"):
        raise Invalid("mutation")
    if mut["m"] in ("case", "lit"):
        i = mut.get("i")
        if not isinstance(i, int) or not 0 <= i < len(pat["parts"]) or "l" not in pat["parts"][i]:
            raise Invalid("mutation index")
        if mut["m"] == "lit" and (not is_literal_word(mut.get("w")) or mut["w"] == pat["parts"][i]["l"]):
            raise Invalid("changed literal")
    if mut["m"] in ("prefix", "suffix") and mut.get("w") not in EXTRA:
        raise Invalid("extra word")


# ---------------------------------------------------------------------------
# reference matcher
# ---------------------------------------------------------------------------
_REF_CACHE = {}


def ref_regex(pat, lazy=False):
    key = (json.dumps(pat, sort_keys=True), lazy)
    rx = _REF_CACHE.get(key)
    if rx is not None:
        return rx
    kind = pat["kind"]
    out = []
    fi = 0
    for i, p in enumerate(pat["parts"]):
        sep = " " if i else ""
        if "l" in p:
            out.append(sep + re.escape(p["l"]))
            continue
        item = item_regex(kind, p, lazy)
        card = p.get("card")
        lz = "?" if lazy else ""
        if card is not None:
            many = r"(?:%s)(?:\s*%s,\s*%s(?:%s))*%s" % (item, lz, lz, item, lz)
            if card == "+":
                body = many
            elif card == "*":
                body = "(?:%s)?%s" % (many, lz)
            else:
                body = "(?:%s)?%s" % (item, lz)
        else:
            body = item
        group = "(?P<g%d>%s)" % (fi, body)
        fi += 1
        if p.get("q"):
            group = '"%s"' % group
        if p.get("opt"):
            out.append("(?: %s)?" % group)
        else:
            out.append(sep + group)
    rx = re.compile(r"\A(?:%s)\Z" % "".join(out))
    if len(_REF_CACHE) > 20000:
        _REF_CACHE.clear()
    _REF_CACHE[key] = rx
    return rx


def ref_match(pat, text):
    """None, or (expected arguments in text order, split is unique)."""
    m = ref_regex(pat).match(text)
    if m is None:
        return None
    kind = pat["kind"]
    flds = fields_of(pat)
    spans = [m.span("g%d" % i) for i in range(len(flds))]
    unique = True
    if kind in PARSE_KINDS and flds:
        m2 = ref_regex(pat, lazy=True).match(text)
        unique = m2 is not None and [m2.span("g%d" % i) for i in range(len(flds))] == spans
    args = []
    for p, (s, e) in zip(flds, spans):
        if s < 0:
            args.append({"start": None, "end": None, "original": None, "name": p.get("n"), "value": None})
        else:
            raw = text[s:e]
            args.append({"start": s, "end": e, "original": raw, "name": p.get("n"),
                         "value": convert(kind, p, raw)})
    return args, unique


# ---------------------------------------------------------------------------
# step functions with distinct source locations
# ---------------------------------------------------------------------------
_FUNCS = {}
_FUNC_SRC = "%sdef step_impl(context, *args, **kwargs):\n    CALLS.append((FID, args, kwargs))\n"


def step_function(fid):
    fn = _FUNCS.get(fid)
    if fn is None:
        filename = "/c11-generated/steps_%02d.py" % (fid // 3)
        scope = {"CALLS": CALLS, "FID": fid}
        exec(compile(_FUNC_SRC % ("\n" * (4 * (fid % 3)),), filename, "exec"), scope)
        fn = scope["step_impl"]
        fn.c11_id = fid
        _FUNCS[fid] = fn
    return fn


_CONTEXT = []


def the_context():
    if not _CONTEXT:
        from behave.configuration import Configuration
        from behave.runner import Context

        class _Runner(object):
            pass
        runner = _Runner()
        runner.config = Configuration(["--no-color", "--no-summary"], load_config=False)
        _CONTEXT.append((Context(runner), runner))
    return _CONTEXT[0][0]


# ---------------------------------------------------------------------------
# reference model of registry + matcher factory (shared by the machine and by check)
# ---------------------------------------------------------------------------
class Model(object):
    def __init__(self):
        self.kind = "parse"
        self.types = set()
        self.type_alt = set()       # type names whose CURRENT converter is the alternative one
        self.defs = dict((t, []) for t in STYPES)     # dicts: pat, text, fn, st, alt (types converted by the alt version)

    def all_defs(self):
        return [d for t in STYPES for d in self.defs[t]]

    # -- registration ---------------------------------------------------------
    def expect_reg(self, op):
        """'added' | 'ignored' | 'ambiguous' | 'either'."""
        text = render(op["pat"])
        eff = effective(op["pat"], text)
        same = amb = ident = False
        for d in self.defs[op["st"]]:
            deff = effective(d["pat"], d["text"])
            if d["fn"] == op["fn"] and d["text"] == text and deff == eff:
                same = True
            elif d["fn"] == op["fn"] and (d["text"] == text or deff == eff):
                # same function, but the same text once for 're' (implicitly anchored regex) and once
                # for another matcher, or the same regex once for 're' and once with ^...$ for 're0'
                ident = True
            elif deff == eff and ref_match(d["pat"], text) is None:
                # the same text by another function that does not match itself as a text
                ident = True
            elif ref_match(d["pat"], text) is not None:
                amb = True
        if same:
            return "either" if (amb or ident) else "ignored"
        if ident:
            return "either"
        return "ambiguous" if amb else "added"

    def invalid(self, op):
        """Reason why op is outside the domain in the current state, or None."""
        try:
            kind = op.get("op")
            if kind == "use":
                if op.get("kind") not in ALL_KINDS:
                    raise Invalid("kind")
            elif kind == "type":
                if op.get("name") not in CONVERTERS or self.kind not in PARSE_KINDS:
                    raise Invalid("register_type needs parse/cfparse as current matcher")
            elif kind == "reg":
                if op.get("st") not in STYPES or not isinstance(op.get("fn"), int) or not 0 <= op["fn"] < 1000:
                    raise Invalid("reg")
                validate_pattern(op.get("pat"), self.types)
                if op["pat"]["kind"] != self.kind:
                    raise Invalid("pattern written for %s, current matcher is %s" % (op["pat"]["kind"], self.kind))
                if self.expect_reg(op) == "either":
                    raise Invalid("outcome left open by the statement")
            elif kind == "look":
                text = op.get("text")
                if op.get("st") not in LOOK_TYPES or not isinstance(text, str) or not text:
                    raise Invalid("look")
                if text != text.strip() or "\n" in text or "\r" in text:
                    raise Invalid("text")
            else:
                raise Invalid("op")
        except Invalid as e:
            return str(e) or "invalid"
        return None

    def apply(self, op):
        """Returns the expectation for op and moves to the next state."""
        kind = op["op"]
        if kind == "use":
            self.kind = op["kind"]
            return None
        if kind == "type":
            self.types.add(op["name"])
            if op.get("alt"):
                self.type_alt.add(op["name"])
            else:
                self.type_alt.discard(op["name"])
            return None
        if kind == "reg":
            exp = self.expect_reg(op)
            if exp == "added":
                self.defs[op["st"]].append({"pat": op["pat"], "text": render(op["pat"]), "fn": op["fn"],
                                            "st": op["st"], "alt": frozenset(self.type_alt)})
            return exp
        return self.expect_lookup(op["st"], op["text"])

    # -- lookup ---------------------------------------------------------------
    def expect_lookup(self, stype, text):
        """All candidates that match, in lookup order: [(list name, index, def, args, unique)]."""
        hits = []
        lists = [stype] + (["step"] if stype != "step" else [])
        for name in lists:
            for idx, d in enumerate(self.defs[name]):
                r = ref_match(d["pat"], text)
                if r is not None:
                    hits.append((name, idx, d, _apply_alt(d, r[0]), r[1]))
        return hits


def _apply_alt(d, args):
    """The converters that were registered when the definition was made convert its parameters."""
    alt = d.get("alt")
    if not alt:
        return args
    out = []
    for p, a in zip(fields_of(d["pat"]), args):
        if p["f"] in alt and a["value"] is not None:
            v = a["value"]
            a = dict(a, value=[("alt", x) for x in v] if isinstance(v, list) else ("alt", v))
        out.append(a)
    return out


def effective(pat, text):
    return "^%s$" % text if pat["kind"] == "re" else text


def same_value(a, b):
    if type(a) is not type(b):
        return False
    if isinstance(a, list):
        return len(a) == len(b) and all(same_value(x, y) for x, y in zip(a, b))
    return a == b


# ---------------------------------------------------------------------------
# replay of ops against behave + model
# ---------------------------------------------------------------------------
class Replayer(object):
    def __init__(self, res, registry=None, model=None):
        from behave.step_registry import StepRegistry
        self.res = res
        self.registry = registry if registry is not None else StepRegistry()
        self.model = model or Model()
        self.evals = 0
        self.diverged = False
        self.type_seen = {}
        self.held = []      # earlier lookup results that are still in use (formatters keep a match until result())

    def check_held(self, now):
        """A reported match describes ITS step text: later lookups (also of the same definition) leave it alone."""
        for what, text, match, snapshot in self.held:
            current = [(a.name, a.original, a.start, a.end, repr(a.value)) for a in match.arguments]
            if current != snapshot:
                self.res.fail("C11.argument.aliased", "the match reported for %s changed when %s was looked up: arguments "
                              "(name, original, start, end, value) were %r, are now %r" % (what, now, snapshot, current))
                self.held = []
                return
        if self.held:
            self.res.label("look:earlier-match-still-held")

    def run_op(self, op, known_args=None):
        reason = self.model.invalid(op)
        if reason:
            raise HarnessError("invalid op %r: %s" % (op, reason))
        getattr(self, "do_" + op["op"])(op, known_args)

    def do_use(self, op, _known):
        from behave import matchers
        self.model.apply(op)
        if op["kind"] == "cuke":
            from behave.cucumber_expression import use_step_matcher_for_cucumber_expressions
            use_step_matcher_for_cucumber_expressions()
        else:
            matchers.use_step_matcher(op["kind"])

    def do_type(self, op, _known):
        from behave import matchers
        self.model.apply(op)
        matchers.register_type(**{op["name"]: (CONVERTERS_ALT if op.get("alt") else CONVERTERS)[op["name"]]})
        if op["name"] in self.model.types and len([1 for _ in self.model.all_defs()]) >= 0:
            self.res.label("reg:type-converter-replaced" if self.replaced(op) else "reg:type")

    def replaced(self, op):
        seen = self.type_seen.get(op["name"])
        self.type_seen[op["name"]] = bool(op.get("alt"))
        return seen is not None and seen != bool(op.get("alt"))

    def do_reg(self, op, _known):
        from behave.step_registry import AmbiguousStep
        res = self.res
        stype, text = op["st"], render(op["pat"])
        before = len(self.registry.steps[stype])
        others = dict((t, len(self.registry.steps[t])) for t in STYPES if t != stype)
        existing = [(d["st"], d["text"]) for d in self.model.all_defs()]
        exp = self.model.apply(op)
        self.evals += 1
        raised = None
        try:
            self.registry.make_decorator(stype)(text)(step_function(op["fn"]))
        except AmbiguousStep as e:
            raised = e
        except Exception as e:      # noqa -- the pattern is valid for the current matcher by construction
            res.fail("C11.register.failed", "@%s(%r) [%s matcher]: registration failed with %s: %s"
                     % (stype, text, op["pat"]["kind"], type(e).__name__, str(e)[:300]), kind=op["pat"]["kind"])
            self.diverged = True
            return
        after = len(self.registry.steps[stype])
        what = "@%s(%r) [%s matcher, function #%d]" % (stype, text, op["pat"]["kind"], op["fn"])
        res.label("reg:" + exp)
        if any(len(self.registry.steps[t]) != n for t, n in others.items()):
            res.fail("C11.register.other-type-list-changed", "%s changed the list of another step type" % what)
            self.diverged = True
        if exp == "ambiguous":
            if raised is None:
                res.fail("C11.register.ambiguous-not-raised",
                         "%s: an existing @%s definition matches this pattern text, but no AmbiguousStep was raised; "
                         "existing: %s" % (what, stype, [d["text"] for d in self.model.defs[stype]]))
                self.diverged = True
            elif after != before:
                res.fail("C11.register.rejected-but-added", "%s raised AmbiguousStep but was added" % what)
                self.diverged = True
        elif exp == "added":
            if raised is not None:
                res.fail("C11.register.unexpected-ambiguous",
                         "%s: no existing @%s definition matches this pattern text, but AmbiguousStep was raised: %s; "
                         "all definitions: %s" % (what, stype, str(raised).replace("\n", " "),
                                                  existing),
                         kind=op["pat"]["kind"])
                self.diverged = True
            elif after != before + 1:
                res.fail("C11.register.not-added", "%s: registry holds %d definitions afterwards, expected %d"
                         % (what, after, before + 1))
                self.diverged = True
        else:   # ignored
            if raised is not None:
                res.fail("C11.reregister.same-definition-rejected",
                         "%s: the very same function and pattern was registered before, the second registration "
                         "must be ignored but raised AmbiguousStep: %s" % (what, str(raised).replace("\n", " ")),
                         kind=op["pat"]["kind"])
            elif after != before:
                res.fail("C11.reregister.same-definition-duplicated",
                         "%s: the very same function and pattern was registered before, the second registration "
                         "must be ignored but the registry now holds %d instead of %d @%s definitions"
                         % (what, after, before, stype), kind=op["pat"]["kind"])
                self.diverged = True

    def do_look(self, op, known_args):
        from behave.matchers import MatchWithError
        from behave.model import Step
        res = self.res
        stype, text = op["st"], op["text"]
        hits = self.model.apply(op)
        self.evals += 1
        step = Step(u"c11.feature", 1, stype.title(), stype, text)
        match = self.registry.find_match(step)
        sdef = self.registry.find_step_definition(step)
        what = "%s %r" % (stype.title(), text)
        if (match is None) != (sdef is None):
            res.fail("C11.lookup.find_match-vs-find_step_definition", "%s: find_match -> %r, find_step_definition -> %r"
                     % (what, match, sdef))
            return
        if not hits:
            res.label("look:unbound")
            if match is not None:
                res.fail("C11.lookup.bound-without-full-match",
                         "%s is bound to @%s(%r) although no definition registered for '%s' or 'step' matches the "
                         "complete text" % (what, sdef.step_type, sdef.pattern, stype), pattern=sdef.pattern)
            return
        name, idx, d, args, unique = hits[0]
        res.label("look:bound")
        if len(hits) > 1:
            if name != "step" and hits[-1][0] == "step":
                res.label("look:specific-over-generic")
            if sum(1 for h in hits if h[0] == name) > 1:
                res.label("look:earlier-over-later")
        if name == "step":
            res.label("look:generic-hit")
        if match is None:
            res.fail("C11.lookup.unbound", "%s is not bound, expected @%s(%r)" % (what, d["st"], d["text"]),
                     kind=d["pat"]["kind"])
            return
        if isinstance(match, MatchWithError):
            res.fail("C11.lookup.match-error", "%s: MatchWithError %r" % (what, match.stored_error))
            return
        if not self.diverged:
            lst = self.registry.steps[sdef.step_type]
            pos = [i for i, x in enumerate(lst) if x is sdef]
            actual = (sdef.step_type, pos[0] if pos else -1)
            if actual != (name, idx):
                if not any(h[0] == actual[0] and h[1] == actual[1] for h in hits):
                    clause = "C11.lookup.bound-to-non-matching-definition"
                elif actual[0] == "step" and name != "step":
                    clause = "C11.lookup.generic-before-type-specific"
                else:
                    clause = "C11.lookup.later-before-earlier"
                res.fail(clause, "%s is bound to @%s(%r) (#%d of its list), expected @%s(%r) (#%d)"
                         % (what, sdef.step_type, sdef.pattern, actual[1], d["st"], d["text"], idx))
                return
        if match.func is not sdef.func:
            res.fail("C11.lookup.wrong-function", "%s: Match.func is not the function of the bound definition" % what)
            return
        # -- arguments as reported
        reported = match.arguments
        self.check_held(what)
        self.held = self.held[-3:] + [(what, text, match,
                                       [(a.name, a.original, a.start, a.end, repr(a.value)) for a in reported])]
        for a in reported:
            if a.original is None:
                continue
            if not (isinstance(a.start, int) and isinstance(a.end, int) and 0 <= a.start <= a.end <= len(text)
                    and text[a.start:a.end] == a.original):
                res.fail("C11.argument.span", "%s with @%s(%r): argument %r reports start=%r end=%r original=%r but "
                         "text[start:end] == %r" % (what, d["st"], d["text"], a.name, a.start, a.end, a.original,
                                                    text[a.start:a.end] if isinstance(a.start, int) else None),
                         kind=d["pat"]["kind"])
        if known_args is not None:
            if not unique or _plain(args) != _plain(known_args):
                raise HarnessError("reference matcher disagrees with construction: %r %r -> %r (unique=%s), built %r"
                                   % (d["text"], text, args, unique, known_args))
        if not unique:
            res.label("look:split-not-unique")
            args = None
        if args is not None:
            got = [(a.name, a.original) for a in reported]
            want = [(a["name"], a["original"]) for a in args]
            if got != want:
                res.fail("C11.argument.list", "%s with @%s(%r): reported arguments (name, original) %r, expected in "
                         "text order %r" % (what, d["st"], d["text"], got, want), kind=d["pat"]["kind"])
                return
            for a, e in zip(reported, args):
                if e["original"] is not None and (a.start, a.end) != (e["start"], e["end"]):
                    res.fail("C11.argument.span", "%s with @%s(%r): argument %r %r reported at [%r:%r], is at [%d:%d]"
                             % (what, d["st"], d["text"], a.name, a.original, a.start, a.end, e["start"], e["end"]),
                             kind=d["pat"]["kind"])
                if not same_value(a.value, e["value"]):
                    res.fail("C11.argument.value", "%s with @%s(%r): argument %r %r has value %r, expected %r"
                             % (what, d["st"], d["text"], a.name, a.original, a.value, e["value"]),
                             kind=d["pat"]["kind"])
        # -- the call
        del CALLS[:]
        match.run(the_context())
        calls = list(CALLS)
        del CALLS[:]
        if len(calls) != 1 or calls[0][0] != d["fn"]:
            res.fail("C11.call.function", "%s: calls %r, expected exactly one call of function #%d"
                     % (what, [c[0] for c in calls], d["fn"]))
            return
        if args is not None:
            pos = [e["value"] for e in args if e["name"] is None]
            kw = dict((e["name"], e["value"]) for e in args if e["name"] is not None)
            _fid, got_pos, got_kw = calls[0]
            ok = (len(got_pos) == len(pos) and all(same_value(x, y) for x, y in zip(got_pos, pos))
                  and sorted(got_kw) == sorted(kw) and all(same_value(got_kw[k], kw[k]) for k in kw))
            if not ok:
                res.fail("C11.call.arguments", "%s with @%s(%r): function called with args=%r kwargs=%r, expected "
                         "args=%r kwargs=%r" % (what, d["st"], d["text"], list(got_pos), got_kw, pos, kw),
                         kind=d["pat"]["kind"])


def _plain(args):
    return [(a["start"], a["end"], a["original"], a["name"], repr(a["value"])) for a in args]


def reset_behave():
    from behave.matchers import get_step_matcher_factory
    get_step_matcher_factory().reset()


# ---------------------------------------------------------------------------
# check
# ---------------------------------------------------------------------------
def check(case):
    res = CaseResult()
    reason = invalid_case(case)
    if reason:
        raise HarnessError("case outside the generated domain: %s" % reason)
    reset_behave()
    try:
        kind = case["kind"]
        if kind == "pattern":
            check_pattern(res, case)
        elif kind == "history":
            check_history(res, case)
        elif kind == "converr":
            check_conversion_error(res, case)
        else:
            check_modules(res, case)
    finally:
        reset_behave()
        del CALLS[:]
    return res


class OutOfStock(Exception):
    pass


CONVERR_EXC = {"ValueError": ValueError, "KeyError": KeyError, "ZeroDivisionError": ZeroDivisionError,
               "AssertionError": AssertionError, "Custom": OutOfStock, "TypeError": TypeError}
CONVERR_LIMIT = 50


def check_conversion_error(res, case):
    """A definition whose pattern matches the complete text stays THE definition of that step when its type converter
    refuses the value (any exception class): the step is bound to it -- as an error to be reported when the step runs --
    and neither falls through to a later / generic definition nor becomes undefined, and nothing escapes the lookup.
    Definitions made later (whose text the refusing definition matches) can still be registered."""
    from behave.matchers import MatchWithError, use_step_matcher, register_type
    from behave.model import Step
    from behave.step_registry import StepRegistry, AmbiguousStep
    exc_class = CONVERR_EXC[case["exc"]]

    @_parse.with_pattern(r"\d+")
    def conv_limited(text):
        if int(text) > CONVERR_LIMIT:
            raise exc_class("only %d in stock" % CONVERR_LIMIT)
        return int(text)
    registry = StepRegistry()
    use_step_matcher(case["matcher"])
    register_type(Lim=conv_limited)
    f_lim, f_any, f_lit = step_function(0), step_function(1), step_function(2)
    lim_type, any_type = case["types"]
    order = [("lim", lim_type, u"take {n:Lim} items", f_lim), ("any", any_type, u"take {anything} items", f_any)]
    if case["any_first"]:
        order.reverse()
    registered = []
    for name, stype, pattern, fn in order:
        try:
            registry.add_step_definition(stype, pattern, fn)
            registered.append((name, stype, fn))
        except AmbiguousStep:
            res.label("converr:second-definition-ambiguous")
    if case.get("literal_later") and ("lim", lim_type, f_lim) in registered:
        # a definition without parameters whose text the limited definition matches but refuses to convert: not
        # ambiguous (documented: conversion errors are ignored in that comparison), and nothing else may escape
        text_lit = u"take %d items now" % case["value"] if case["literal_later"] == "longer" else \
            u"take %d items" % case["value"]
        try:
            registry.add_step_definition(lim_type, text_lit, f_lit)
            if text_lit == u"take %d items" % case["value"]:
                registered.append(("lit", lim_type, f_lit))
        except AmbiguousStep:
            if case["value"] > CONVERR_LIMIT or text_lit.endswith(u"now"):
                if not any(n == "any" and t == lim_type for n, t, _f in registered):
                    res.fail("C11.converr.registration", "registering @%s(%r) after the limited definition is refused as "
                             "ambiguous although no registered definition accepts that text" % (lim_type, text_lit))
        except Exception as e:     # noqa
            res.fail("C11.converr.registration-escape", "registering @%s(%r): %s: %s escaped from the comparison with "
                     "the registered definitions" % (lim_type, text_lit, e.__class__.__name__, e))
            return
    res.nontrivial = True
    res.evals = 0
    res.label("converr", "converr:" + case["exc"], "converr:" + case["matcher"])
    for look_type in LOOK_TYPES:
        for value in (case["value"], 7):
            text = u"take %d items" % value
            # own account: candidates in lookup order (type-specific in registration order, then generic)
            cands = [(n, fn) for n, t, fn in registered if t == look_type] + \
                    [(n, fn) for n, t, fn in registered if t == "step"]
            res.evals += 1
            step = Step(u"c11.feature", 1, look_type.title(), look_type, text)
            try:
                match = registry.find_match(step)
            except Exception as e:     # noqa
                res.fail("C11.converr.lookup-escape", "looking up %s %r: %s: %s escaped from find_match()"
                         % (look_type.title(), text, e.__class__.__name__, e))
                return
            what = "%s %r (definitions in lookup order: %s)" % (look_type.title(), text, [n for n, _f in cands])
            if not cands:
                if match is not None:
                    res.fail("C11.converr.bound", "%s is bound to %r" % (what, match.func))
                continue
            first_name, first_fn = cands[0]
            refused = first_name == "lim" and value > CONVERR_LIMIT
            if refused:
                res.label("converr:first-candidate-refuses")
                if len(cands) > 1:
                    res.label("converr:first-candidate-refuses:another-would-match")
            if match is None:
                res.fail("C11.converr.undefined", "%s: no definition found%s" % (
                    what, " (the first one matches the text but its converter refuses the value)" if refused else ""))
                continue
            if match.func is not first_fn:
                res.fail("C11.converr.fell-through", "%s is bound to definition %s%s" % (
                    what, [n for n, fn in cands if fn is match.func] or match.func,
                    " although the first one matches the complete text (its converter refuses the value)" if refused else ""))
                continue
            if refused != isinstance(match, MatchWithError):
                res.fail("C11.converr.kind", "%s: %s" % (what, "conversion refused but an ordinary match is reported"
                                                         if refused else "a conversion error is reported: %r" % match))
                continue
            if refused:
                try:
                    match.run(the_context())
                    res.fail("C11.converr.run", "%s: running the match raised nothing" % what)
                except Exception as e:     # noqa
                    cause = getattr(e, "__cause__", None) or getattr(e, "exc_cause", None) or e
                    if not (isinstance(e, exc_class) or isinstance(cause, exc_class) or exc_class.__name__ in repr(e)
                            or "in stock" in u"%s" % (e,)):
                        res.fail("C11.converr.run", "%s: running the match raised %r, which does not carry the "
                                 "converter's error" % (what, e))
            else:
                del CALLS[:]
                match.run(the_context())
                want_fid = first_fn.c11_id
                if not CALLS or CALLS[-1][0] != want_fid:
                    res.fail("C11.converr.dispatch", "%s: called %r, expected function %d" % (what, CALLS[-1:], want_fid))
                elif first_name == "lim" and CALLS[-1][2].get("n") != value:
                    res.fail("C11.converr.argument", "%s: called with %r" % (what, CALLS[-1][1:]))


def converr_cases():
    import itertools
    for exc, matcher, any_first, value in itertools.product(sorted(CONVERR_EXC), PARSE_KINDS, (False, True), (51, 77, 50, 3)):
        for types in (("given", "given"), ("given", "step"), ("step", "given"), ("when", "then"), ("step", "step"),
                      ("then", "step")):
            for lit in (None, "same", "longer"):
                yield {"kind": "converr", "exc": exc, "matcher": matcher, "any_first": any_first, "value": value,
                       "types": list(types), "literal_later": lit}


def invalid_case(case):
    if case.get("kind") == "converr":
        ok = (case.get("exc") in CONVERR_EXC and case.get("matcher") in PARSE_KINDS and isinstance(case.get("value"), int)
              and 0 <= case["value"] < 10 ** 6 and len(case.get("types") or []) == 2
              and all(t in STYPES for t in case["types"]) and case.get("literal_later") in (None, "same", "longer"))
        return None if ok else "malformed conversion-error case"
    try:
        kind = case.get("kind") if isinstance(case, dict) else None
        if kind == "pattern":
            pat = case["pat"]
            types = case["types"]
            if not isinstance(types, list) or any(t not in CONVERTERS for t in types):
                raise Invalid("types")
            validate_pattern(pat, set(types))
            validate_insts(pat, case["insts"])
            for m in case["muts"]:
                validate_mut(pat, m)
            if case["st"] not in STYPES or case["look"] not in LOOK_TYPES or not 0 <= case["fn"] < NFUNCS:
                raise Invalid("step types")
        elif kind == "history":
            model = Model()
            for op in case["ops"]:
                reason = model.invalid(op)
                if reason:
                    raise Invalid(reason)
                if op["op"] == "use" and op["kind"] == "cuke":
                    raise Invalid("cuke in history")
                if op["op"] == "reg" and op["fn"] >= NFUNCS:
                    raise Invalid("fn")
                model.apply(op)
        elif kind == "modules":
            model = Model()
            model.types = set(CONVERTERS)
            if case["env"] is not None and case["env"] not in KINDS:
                raise Invalid("env")
            if not case["files"]:
                raise Invalid("no files")
            imports = module_imports(case)
            if case.get("cwd") not in (None, 0, 1, 2, 3):
                raise Invalid("cwd")
            for i, (_fname, _imp, ops, looks) in enumerate(module_ops(case)):
                model.kind = case["env"] or "parse"
                if case["files"][i].get("xi") is not None and i not in imports:
                    raise Invalid("import")
                if i in imports:
                    model.kind = import_kinds(case, model.kind)[i]
                for op in ops:
                    reason = model.invalid(op)
                    if reason:
                        raise Invalid(reason)
                    if op["op"] == "reg":
                        validate_insts(op["pat"], looks[op["fn"]])
                        if model.expect_reg(op) != "added" or "l" not in op["pat"]["parts"][0]:
                            raise Invalid("module definitions must not overlap")
                    elif op["op"] != "use" or op["kind"] not in KINDS:
                        raise Invalid("module op")
                    model.apply(op)
        else:
            raise Invalid("kind")
    except (Invalid, KeyError, TypeError, AttributeError, IndexError) as e:
        return "%s: %s" % (type(e).__name__, e)
    return None


def valid_case(case):
    return invalid_case(case) is None


def label_pattern(res, pat, insts=None):
    kind = pat["kind"]
    res.label("kind:" + kind)
    for p in fields_of(pat):
        t = p["f"]
        if kind in PARSE_KINDS:
            res.label("field:" + ("custom" if t in CONVERTERS else t))
            if p.get("card"):
                res.label("field:card" + p["card"])
        elif kind in RE_KINDS:
            res.label("field:re-named" if p.get("n") else "field:re-unnamed")
            if p.get("opt"):
                res.label("field:re-optional")
        if p.get("n") is None:
            res.label("field:anonymous")
        if p.get("q"):
            res.label("field:quoted")
    if insts is not None:
        for p, inst in zip(fields_of(pat), insts):
            if inst is None:
                res.label("inst:optional-absent")
            elif p.get("opt"):
                res.label("inst:optional-present")
            elif inst == []:
                res.label("inst:card-empty")


def check_pattern(res, case):
    pat = case["pat"]
    rp = Replayer(res)
    for t in case["types"]:
        rp.run_op({"op": "type", "name": t})
    rp.run_op({"op": "use", "kind": pat["kind"]})
    rp.run_op({"op": "reg", "st": case["st"], "fn": case["fn"], "pat": pat})
    applicable = case["st"] in ("step", case["look"])
    for mut in [{"m": "exact"}] + case["muts"]:
        if rp.diverged:
            break
        text, args = build_text(pat, case["insts"], mut)
        if text != text.strip():
            continue
        res.label("text:" + mut["m"])
        rp.run_op({"op": "look", "st": case["look"], "text": text},
                  known_args=args if (mut["m"] == "exact" and applicable) else None)
    if not applicable:
        res.label("look:other-step-type")
    label_pattern(res, pat, case["insts"])
    res.evals = rp.evals
    res.nontrivial = len(fields_of(pat)) >= 2


def check_history(res, case):
    rp = Replayer(res)
    regs = 0
    types = set()
    for op in case["ops"]:
        if rp.diverged:
            break
        rp.run_op(op)
        if op["op"] == "reg":
            regs += 1
            types.add(op["st"])
            res.label("hist-kind:" + op["pat"]["kind"])
    res.evals = max(1, rp.evals)
    res.nontrivial = regs >= 3 and len(types) >= 2
    if regs >= 32:
        res.label("hist:large-library")
    if res.nontrivial:
        res.label("hist:nontrivial")


# ---------------------------------------------------------------------------
# step modules
# ---------------------------------------------------------------------------
def module_ops(case):
    """[(file name, uses imports, ops, {fn: instances})]; function ids number the definitions."""
    out = []
    fid = 0
    for i, f in enumerate(case["files"]):
        ops = []
        looks = {}
        for item in f["items"]:
            if "use" in item:
                ops.append({"op": "use", "kind": item["use"], "legacy": bool(item.get("legacy"))})
            else:
                ops.append({"op": "reg", "st": item["st"], "fn": fid, "pat": item["pat"]})
                looks[fid] = item["insts"]
                fid += 1
        out.append(("m%02d_steps.py" % i, bool(f.get("imp")), ops, looks))
    return out


def module_imports(case):
    """file index -> index of an EARLIER step module that it imports as its first statement
    (only modules that import nothing themselves, and that import the decorators explicitly instead
    of relying on the names behave injects into exec'd step files, are imported)."""
    out = {}
    for i, f in enumerate(case["files"]):
        j = f.get("xi")
        if j is not None and 0 <= j < i and case["files"][j].get("xi") is None and case["files"][j].get("imp"):
            out[i] = j
    return out


def import_kinds(case, default):
    """file index -> matcher kind in force after its `import mJJ_steps` line: the imported module's
    last selection when the import executes it (first import), else unchanged (sys.modules hit)."""
    out = {}
    seen = set()
    for i, j in sorted(module_imports(case).items()):
        out[i] = default if j in seen else final_kind(case["files"][j], default)
        seen.add(j)
    return out


def final_kind(f, default):
    kind = default
    for item in f["items"]:
        if "use" in item:
            kind = item["use"]
    return kind


def module_source(imp, ops, sibling=None):
    lines = [u"# -*- coding: UTF-8 -*-", u"import vf.props.c11 as _c11"]
    if sibling is not None:
        # "This may occur when a step module imports another one" (StepRegistry.add_step_definition)
        lines.append(u"import m%02d_steps" % sibling)
    if imp:
        lines.append(u"from behave import given, when, then, step, use_step_matcher, step_matcher")
    for op in ops:
        if op["op"] == "use":
            # `step_matcher(name)` is the older spelling of use_step_matcher(name): same effect
            lines.append((u"step_matcher(%r)" if op.get("legacy") else u"use_step_matcher(%r)") % op["kind"])
        else:
            lines += [u"", u"@%s(%r)" % (op["st"], render(op["pat"])),
                      u"def step_impl(context, *args, **kwargs):",
                      u"    _c11.CALLS.append((%d, args, kwargs))" % op["fn"]]
    return u"\n".join(lines) + u"\n"


_OWN_CLASSES = {}


def check_modules(res, case):
    from behave import matchers
    from behave import step_registry
    from behave.runner_util import load_step_modules
    files = module_ops(case)
    default = case["env"] or "parse"
    base = os.environ.get("VERIF_TMP") or tempfile.gettempdir()
    os.makedirs(base, exist_ok=True)
    scratch = tempfile.mkdtemp(prefix="c11-steps-", dir=base)
    registry = step_registry.registry
    registry.clear()
    model = Model()
    model.types = set(CONVERTERS)
    imports = module_imports(case)
    old_cwd = os.getcwd()
    try:
        steps_dir = scratch
        if case.get("cwd"):
            steps_dir = os.path.join(scratch, "proj", "features", "steps")
            os.makedirs(steps_dir)
            os.makedirs(os.path.join(scratch, "elsewhere", "deep"))
            # behave may be started anywhere: `behave /abs/path/to/features`
            os.chdir({1: steps_dir, 2: os.path.join(scratch, "proj"),
                      3: os.path.join(scratch, "elsewhere", "deep")}[case["cwd"]])
            res.label("modules:cwd-%d" % case["cwd"])
        for i, (name, imp, ops, _looks) in enumerate(files):
            with open(os.path.join(steps_dir, name), "w", encoding="utf-8") as f:
                f.write(module_source(imp, ops, imports.get(i)))
        if imports:
            res.label("modules:sibling-import")
        # -- what an environment.py would do before the step modules are loaded
        matchers.register_type(**CONVERTERS)
        own_class = None
        if case["env"] and case.get("env_custom"):
            # environment.py registers its own matcher class (a subclass of a built-in one, behaviour unchanged)
            # under its own name and makes it the default: documented extension point
            factory = matchers.get_step_matcher_factory()
            base_class = factory.step_matcher_class_mapping[case["env"]]
            own_class = _OWN_CLASSES.get(case["env"])
            if own_class is None:
                # (one class object per process: the factory keeps registered classes for the life of the process)
                body = {}
                if hasattr(base_class, "regex") and isinstance(getattr(base_class, "regex"), property):
                    # a regex matcher of one's own may override the public `regex` property (here: same flags, own cache)
                    import re as _re

                    def _get_regex(self):
                        if getattr(self, "_own_regex", None) is None:
                            self._own_regex = _re.compile(self.pattern, _re.UNICODE)
                        return self._own_regex

                    def _set_regex(self, value):
                        self._own_regex = value
                    body["regex"] = property(_get_regex, _set_regex)
                own_class = _OWN_CLASSES[case["env"]] = type("Own%s" % base_class.__name__, (base_class,), body)
            matchers.register_step_matcher_class("own_" + case["env"], own_class)
            matchers.use_step_matcher("own_" + case["env"])
            res.label("modules:own-matcher-class-as-default")
        elif case["env"]:
            matchers.use_step_matcher(case["env"])
        try:
            load_step_modules([steps_dir])
        except step_registry.AmbiguousStep as e:
            res.fail("C11.modules.load-ambiguous", "loading non-overlapping step modules raised AmbiguousStep: %s"
                     % str(e).replace("\n", " "))
            return
        except Exception as e:      # noqa -- every generated module is valid for the matcher it was written for
            res.fail("C11.modules.load-failed", "loading step modules that are valid for the default matcher / the "
                     "matcher they select failed with %s: %s" % (type(e).__name__, str(e)[:300]))
            return
        current = matchers.get_step_matcher_factory().current_matcher.NAME
        if current != default:
            res.fail("C11.modules.matcher-after-load", "after load_step_modules the current matcher is %r, "
                     "default is %r" % (current, default))
        switched = False
        relied = False
        imported_before = set()
        under_default = []      # (step type, index among the definitions of that type) made while the default is in force
        if own_class is not None and matchers.get_step_matcher_factory().current_matcher is not own_class:
            res.fail("C11.modules.own-default-lost", "after load_step_modules the current matcher class is %s, the "
                     "environment selected %s" % (matchers.get_step_matcher_factory().current_matcher.__name__,
                                                  own_class.__name__))
        for i, (_name, _imp, ops, _looks) in enumerate(files):
            model.kind = default
            first = True
            if i in imports:
                # the imported module runs again (its definitions are ignored as re-registrations);
                # the matcher it selected last stays selected for the importing module
                model.kind = import_kinds(case, default)[i]
                if model.kind != default:
                    first = False
                j_imported = imports[i]
                if j_imported not in imported_before and any("use" in it for it in case["files"][j_imported]["items"]):
                    first = False       # an explicit selection (even of the default's own kind) is in force
                imported_before.add(j_imported)
            for op in ops:
                if op["op"] == "reg" and first and switched:
                    relied = True
                if op["op"] == "reg" and first:
                    under_default.append((op["st"], len(model.defs[op["st"]])))
                if op["op"] == "use":
                    first = False
                    if op.get("legacy"):
                        res.label("modules:legacy-step_matcher-alias")
                model.apply(op)
            switched = switched or model.kind != default
        if relied:
            res.label("modules:default-after-switch")
        if case["env"]:
            res.label("modules:env-default")
        nregs = 0
        stypes = set()
        for t in STYPES:
            if len(registry.steps[t]) != len(model.defs[t]):
                res.fail("C11.modules.definitions-lost", "@%s: %d definitions registered, %d written"
                         % (t, len(registry.steps[t]), len(model.defs[t])))
                return
        if own_class is not None:
            for stype_, index in under_default:
                made_by = type(registry.steps[stype_][index])
                if made_by is not own_class:
                    res.fail("C11.modules.own-default-lost", "definition #%d of @%s was written while the default matcher "
                             "is in force, which is the environment's %s; it was built by %s"
                             % (index, stype_, own_class.__name__, made_by.__name__))
                    break
        rp = Replayer(res, registry=registry, model=model)
        for _name, _imp, ops, looks in files:
            for op in ops:
                if op["op"] != "reg":
                    continue
                nregs += 1
                stypes.add(op["st"])
                text, args = build_text(op["pat"], looks[op["fn"]])
                if text != text.strip():
                    continue
                stype = op["st"] if op["st"] != "step" else LOOK_TYPES[op["fn"] % 3]
                res.label("modules-kind:" + op["pat"]["kind"])
                rp.run_op({"op": "look", "st": stype, "text": text}, known_args=args)
        res.evals = max(1, rp.evals)
        res.nontrivial = nregs >= 3 and len(stypes) >= 2
    finally:
        os.chdir(old_cwd)
        registry.clear()
        for name in [n for n in sys.modules if re.match(r"m\d\d_steps$", n)]:
            del sys.modules[name]
        importlib.invalidate_caches()
        shutil.rmtree(scratch, ignore_errors=True)


# ---------------------------------------------------------------------------
# strategies
# ---------------------------------------------------------------------------
def _weighted(pairs):
    pool = []
    for value, weight in pairs:
        pool.extend([value] * weight)
    return st.sampled_from(pool)


@st.composite
def field_st(draw, kind, types, names, first):
    name = names.pop() if draw(st.integers(0, 3)) else None
    p = {}
    if kind in PARSE_KINDS:
        pool = ["any", "d", "w", "f"] + sorted(types) * (3 if kind == "cfparse" else 1)
        p["f"] = draw(st.sampled_from(pool))
        if kind == "cfparse" and p["f"] in CONVERTERS and draw(st.integers(0, 2)):
            p["card"] = draw(st.sampled_from(["+", "?", "*"]))
        if not draw(st.integers(0, 5)):
            p["q"] = True
    elif kind in RE_KINDS:
        p["f"] = draw(st.sampled_from(sorted(RE_CLASSES)))
        if not first and not draw(st.integers(0, 3)):
            p["opt"] = True
        elif not draw(st.integers(0, 5)):
            p["q"] = True
    else:
        p["f"] = draw(st.sampled_from(sorted(CUKE_TYPES)))
        name = None
    p["n"] = name
    return p


@st.composite
def pattern_st(draw, kind, types=(), lits=LIT, max_fields=3, first_literal=None):
    nf = draw(_weighted([(0, 1), (1, 3), (2, 4), (3, 2)] if max_fields >= 3 else [(0, 2), (1, 4), (2, 3)]))
    names = list(draw(st.permutations(NAMES)))
    lit = st.sampled_from(lits)
    parts = []
    if first_literal is not None:
        parts.append({"l": first_literal})
        lead = draw(st.integers(0, 1))
    else:
        lead = draw(_weighted([(0, 1), (1, 3), (2, 1)])) if nf else draw(st.integers(1, 3))
    for _ in range(lead):
        parts.append({"l": draw(lit)})
    for i in range(nf):
        if parts and "f" in parts[-1]:
            for _ in range(draw(_weighted([(1, 4), (2, 1)]))):
                parts.append({"l": draw(lit)})
        parts.append(draw(field_st(kind, types, names, first=not parts)))
    if nf:
        for _ in range(draw(_weighted([(0, 2), (1, 3), (2, 1)]))):
            parts.append({"l": draw(lit)})
    return {"kind": kind, "parts": parts}


def _int_text(lo=-999, hi=99999):
    return st.integers(lo, hi).map(str)


def _float_text(signed=True):
    return st.builds(lambda neg, a, b, nd: "%s%d.%0*d" % ("-" if neg and signed else "", a, nd, b % (10 ** nd)),
                     st.booleans(), st.integers(0, 999), st.integers(0, 999), st.integers(1, 3))


def _words(pool, lo=1, hi=3):
    return st.lists(st.sampled_from(pool), min_size=lo, max_size=hi).map(" ".join)


def item_st(kind, p):
    t = p["f"]
    if kind in PARSE_KINDS:
        return {"any": _words(ANY_WORDS), "d": _int_text(), "w": st.sampled_from(W_WORDS), "f": _float_text(),
                "Num": st.one_of(_int_text(0, 9999), st.sampled_from(["007", "0"])),
                "Color": st.sampled_from(COLORS), "Flag": st.sampled_from(["on", "off"])}[t]
    if kind in RE_KINDS:
        return {"digits": st.one_of(_int_text(0, 9999), st.just("007")), "word": st.sampled_from(W_WORDS),
                "cap": st.sampled_from(CAP_WORDS), "any": _words(ANY_WORDS), "float": _float_text(),
                "color": st.sampled_from(COLORS)}[t]
    return {"int": _int_text(), "word": st.sampled_from(W_WORDS + ["b-12"]), "float": _float_text(),
            "string": _words(ANY_WORDS, 1, 2).map(lambda s: '"%s"' % s)}[t]


@st.composite
def insts_st(draw, pat):
    kind = pat["kind"]
    out = []
    last = len(pat["parts"]) - 1
    for i, p in enumerate(pat["parts"]):
        if "f" not in p:
            continue
        item = item_st(kind, p)
        card = p.get("card")
        if card is not None:
            lo = 1 if (card == "+" or i in (0, last)) else 0
            hi = 1 if card == "?" else 3
            out.append(draw(st.lists(item, min_size=lo, max_size=hi)))
        elif p.get("opt"):
            out.append(draw(st.one_of(st.none(), item)))
        else:
            out.append(draw(item))
    return out


@st.composite
def mut_st(draw, pat, exact_weight=0):
    lits = [i for i, p in enumerate(pat["parts"]) if "l" in p]
    modes = ["prefix", "suffix"] + (["case", "case", "lit"] if lits else []) + ["exact"] * exact_weight
    m = draw(st.sampled_from(modes))
    if m == "case":
        return {"m": "case", "i": draw(st.sampled_from(lits)), "how": draw(st.sampled_from(["upper", "cap"]))}
    if m == "lit":
        i = draw(st.sampled_from(lits))
        w = draw(st.sampled_from([x for x in CHANGED + LIT_SMALL if x != pat["parts"][i]["l"]]))
        return {"m": "lit", "i": i, "w": w}
    if m == "exact":
        return {"m": "exact"}
    return {"m": m, "w": draw(st.sampled_from(EXTRA))}


@st.composite
def pattern_case_st(draw):
    kind = draw(_weighted([("parse", 4), ("cfparse", 4), ("re", 4), ("re0", 2), ("cuke", 1)]))
    types = []
    if kind in PARSE_KINDS:
        types = draw(st.lists(st.sampled_from(sorted(CONVERTERS)), unique=True, max_size=3,
                              min_size=1 if kind == "cfparse" else 0).map(sorted))
    pat = draw(pattern_st(kind, types))
    insts = draw(insts_st(pat))
    muts = draw(st.lists(mut_st(pat), min_size=1, max_size=4))
    stype = draw(st.sampled_from(STYPES))
    if stype == "step" or draw(st.integers(0, 4)):
        look = stype if stype != "step" else draw(st.sampled_from(LOOK_TYPES))
    else:
        look = draw(st.sampled_from([t for t in LOOK_TYPES if t != stype]))
    return {"kind": "pattern", "pat": pat, "types": types, "insts": insts, "muts": muts, "st": stype,
            "look": look, "fn": draw(st.integers(0, NFUNCS - 1))}


@st.composite
def modules_case_st(draw):
    env = draw(st.one_of(st.none(), st.none(), st.sampled_from(KINDS)))
    default = env or "parse"
    nfiles = draw(st.integers(2, 4))
    uniq = iter(["alpha", "bravo", "charlie", "delta", "echo", "foxtrot", "golf", "hotel", "india", "juliett",
                 "kilo", "lima", "mike", "november", "oscar", "papa", "quebec", "romeo", "sierra", "tango",
                 "uniform", "victor", "whiskey", "xray", "yankee", "zulu"])
    files = []
    for _ in range(nfiles):
        items = []
        kind = default
        xi = None
        importable = [j for j, g in enumerate(files) if g["imp"] and g.get("xi") is None]
        if importable and draw(st.integers(0, 2)) == 0:
            xi = draw(st.sampled_from(importable))
            if not any(g.get("xi") == xi for g in files):
                kind = final_kind(files[xi], default)       # the imported module's last selection stays
        for seg in range(draw(st.integers(1, 3))):
            if seg:
                kind = draw(st.sampled_from(KINDS))
                items.append({"use": kind, "legacy": draw(st.integers(0, 3)) == 0})
            for _d in range(draw(st.integers(0 if seg == 0 and not draw(st.integers(0, 3)) else 1, 2))):
                pat = draw(pattern_st(kind, sorted(CONVERTERS), first_literal=next(uniq), max_fields=2))
                items.append({"st": draw(st.sampled_from(STYPES)), "pat": pat, "insts": draw(insts_st(pat))})
        f = {"imp": draw(st.booleans()), "items": items}
        if xi is not None:
            f["xi"] = xi
        files.append(f)
    case = {"kind": "modules", "env": env, "files": files, "cwd": draw(st.sampled_from([0, 0, 1, 2, 3]))}
    if env and draw(st.booleans()):
        case["env_custom"] = True
    return case


def reregister_cases():
    shapes = {
        "parse": [[{"l": "foo"}, {"l": "bar"}], [{"l": "foo"}, {"f": "d", "n": "n"}]],
        "cfparse": [[{"l": "foo"}, {"l": "bar"}], [{"l": "foo"}, {"f": "w", "n": None}]],
        "re": [[{"l": "foo"}, {"l": "bar"}], [{"l": "foo"}, {"f": "digits", "n": "n"}]],
        "re0": [[{"l": "foo"}, {"l": "bar"}], [{"l": "foo"}, {"f": "digits", "n": "n"}]],
    }
    for kind in KINDS:
        for parts in shapes[kind]:
            for stype in STYPES:
                pat = {"kind": kind, "parts": parts}
                text = "foo bar" if len(fields_of(pat)) == 0 else "foo 12"
                reg = {"op": "reg", "st": stype, "fn": 1, "pat": pat}
                look = {"op": "look", "st": "when" if stype == "step" else stype, "text": text}
                yield {"kind": "history", "ops": [{"op": "use", "kind": kind}, reg, look, reg, look]}


# ---------------------------------------------------------------------------
# histories: the state machine only GENERATES op lists (it keeps the reference model to
# know what is registered); check() replays them
# ---------------------------------------------------------------------------
def _compatible(pat, kind):
    k = pat["kind"]
    if k == kind:
        return True
    if not fields_of(pat):
        return kind != "cuke"
    if k in PARSE_KINDS and kind in PARSE_KINDS:
        return kind == "cfparse" or not any(p.get("card") for p in fields_of(pat))
    return k in RE_KINDS and kind in RE_KINDS


class C11Machine(RuleBasedStateMachine):
    recorder = None
    subcheck = "histories"

    def __init__(self):
        super(C11Machine, self).__init__()
        self.model = Model()
        self.ops = []

    def emit(self, op):
        if self.model.invalid(op):
            return False
        self.model.apply(op)
        self.ops.append(op)
        return True

    @initialize(kind=st.sampled_from(KINDS), types=st.lists(st.sampled_from(sorted(CONVERTERS)), unique=True),
                pad=st.sampled_from([0] * 5 + [31, 32, 33, 40]), padtype=st.sampled_from(STYPES))
    def start(self, kind, types, pad, padtype):
        for name in types:
            self.emit({"op": "type", "name": name})
        if kind != "parse":
            self.emit({"op": "use", "kind": kind})
        # a LARGE step library: some dozens of unrelated definitions of one step type are there already
        # (what holds for three definitions holds for the fortieth)
        self.padtype = padtype if pad else None
        for i in range(pad):
            word = "pad" + chr(97 + i // 26) + chr(97 + i % 26)
            self.emit({"op": "reg", "st": padtype, "fn": i % NFUNCS,
                       "pat": {"kind": self.model.kind, "parts": [{"l": word}, {"l": "filler"}]}})

    @rule(kind=st.sampled_from(KINDS))
    def use_step_matcher(self, kind):
        self.emit({"op": "use", "kind": kind})

    @precondition(lambda self: self.model.kind in PARSE_KINDS)
    @rule(name=st.sampled_from(sorted(CONVERTERS)), alt=st.booleans())
    def register_type(self, name, alt):
        # also: a type name that is registered already gets another converter
        op = {"op": "type", "name": name}
        if alt:
            op["alt"] = True
        self.emit(op)

    @rule(data=st.data(), stype=st.sampled_from(STYPES), fn=st.integers(0, NFUNCS - 1))
    def register_new(self, data, stype, fn):
        pat = data.draw(pattern_st(self.model.kind, sorted(self.model.types), lits=LIT_SMALL, max_fields=2))
        self.emit({"op": "reg", "st": stype, "fn": fn, "pat": pat})

    @precondition(lambda self: any(_compatible(d["pat"], self.model.kind) for d in self.model.all_defs()))
    @rule(data=st.data())
    def register_variant(self, data):
        kind = self.model.kind
        cands = [d for d in self.model.all_defs() if _compatible(d["pat"], kind)]
        d = data.draw(st.sampled_from(cands))
        pat = copy.deepcopy(d["pat"])
        pat["kind"] = kind
        stype, fn = d["st"], d["fn"]
        mode = data.draw(st.sampled_from(["same", "same", "other-type", "other-type", "other-fn", "generalise",
                                          "generalise", "generalise", "specialise", "retype"]))
        fidx = [i for i, p in enumerate(pat["parts"]) if "f" in p]
        if mode in ("generalise", "specialise", "retype") and not fidx:
            mode = "other-type"
        if mode == "other-type":
            stype = data.draw(st.sampled_from([t for t in STYPES if t != d["st"]]))
            fn = data.draw(st.integers(0, NFUNCS - 1))
        elif mode == "other-fn":
            fn = (fn + data.draw(st.integers(1, NFUNCS - 1))) % NFUNCS
        elif mode != "same":
            i = data.draw(st.sampled_from(fidx))
            if mode == "specialise":
                pat["parts"][i] = {"l": data.draw(st.sampled_from(LIT_SMALL))}
            elif mode == "generalise":
                pat["parts"][i] = {"f": "any", "n": pat["parts"][i].get("n")}
            else:
                names = [n for n in NAMES if n not in [p.get("n") for p in pat["parts"]]]
                pat["parts"][i] = data.draw(field_st(kind, sorted(self.model.types), names, first=(i == 0)))
            fn = data.draw(st.integers(0, NFUNCS - 1))
            stype = data.draw(st.sampled_from([d["st"], d["st"], d["st"], "step", "given"]))
        if not self.emit({"op": "reg", "st": stype, "fn": fn, "pat": pat}) and mode == "other-fn":
            stype = data.draw(st.sampled_from([t for t in STYPES if t != d["st"]]))
            self.emit({"op": "reg", "st": stype, "fn": fn, "pat": pat})

    @rule(stype=st.sampled_from(STYPES), w1=st.sampled_from(LIT_SMALL), w2=st.sampled_from(LIT_SMALL),
          field_first=st.booleans(), fn=st.integers(0, NFUNCS - 1), quoted=st.integers(0, 3))
    def register_crossing(self, stype, w1, w2, field_first, fn, quoted):
        """Two definitions that overlap without either matching the other's pattern text ('{a} w2' and 'w1 {b}'),
        in either order, then the text both match: the earlier registration is the one that binds."""
        kind = self.model.kind
        stype = self.padtype or stype
        a = {"kind": kind, "parts": [{"f": "any", "n": "a"}, {"l": w2}]}
        b = {"kind": kind, "parts": [{"l": w1}, {"f": "any", "n": "b"}]}
        if not quoted:
            # the first word of the pattern is a field in quotes: '"{a}" w2' binds '"w1" w2'
            a["parts"][0]["q"] = True
            self.emit({"op": "reg", "st": stype, "fn": fn, "pat": a})
            self.emit({"op": "look", "st": stype if stype != "step" else "when", "text": '"%s" %s' % (w1, w2)})
            return
        pair = [(a, fn), (b, (fn + 1) % NFUNCS)]
        for pat, f in (pair if field_first else reversed(pair)):
            self.emit({"op": "reg", "st": stype, "fn": f, "pat": pat})
        self.emit({"op": "look", "st": stype if stype != "step" else "when", "text": w1 + " " + w2})

    def _typed_defs(self):
        return [d for d in self.model.all_defs() if d["pat"]["kind"] == self.model.kind and self.model.kind in PARSE_KINDS
                and any(p.get("f") in CONVERTERS for p in fields_of(d["pat"]))]

    @precondition(lambda self: bool(self._typed_defs()))
    @rule(data=st.data(), fn=st.integers(0, NFUNCS - 1))
    def redefine_type_then_same_pattern(self, data, fn):
        """A type name used by a registered pattern gets another converter; then the SAME pattern text is registered
        for another step type (two step modules, each with its own idea of the type) and looked up there."""
        d = data.draw(st.sampled_from(self._typed_defs()))
        name = [p["f"] for p in fields_of(d["pat"]) if p.get("f") in CONVERTERS][0]
        op = {"op": "type", "name": name}
        if name not in self.model.type_alt:
            op["alt"] = True
        self.emit(op)
        stype = data.draw(st.sampled_from([t for t in STYPES if t != d["st"]]))
        self.emit({"op": "reg", "st": stype, "fn": fn, "pat": copy.deepcopy(d["pat"])})
        text, _args = build_text(d["pat"], data.draw(insts_st(d["pat"])))
        self.emit({"op": "look", "st": stype if stype != "step" else "when", "text": text})

    @rule(data=st.data(), stype=st.sampled_from(LOOK_TYPES), generic=st.booleans(), fn=st.integers(0, NFUNCS - 1))
    def late_definition(self, data, stype, generic, fn):
        """A step text is looked up (most likely in vain), THEN a definition for it is registered -- for its step type or
        as a generic step, as a step library loaded on demand does -- and the text is looked up again."""
        pat = data.draw(pattern_st(self.model.kind, sorted(self.model.types), lits=LIT_SMALL, max_fields=2))
        text, _args = build_text(pat, data.draw(insts_st(pat)))
        self.emit({"op": "look", "st": stype, "text": text})
        self.emit({"op": "reg", "st": "step" if generic else stype, "fn": fn, "pat": pat})
        self.emit({"op": "look", "st": stype, "text": text})

    @precondition(lambda self: bool(self.model.all_defs()))
    @rule(data=st.data())
    def lookup_registered(self, data):
        defs = self.model.all_defs()
        own = [d for d in defs if not d["text"].lstrip("^").startswith("pad")]
        d = data.draw(st.sampled_from(own if own and data.draw(st.integers(0, 7)) else defs))
        insts = data.draw(insts_st(d["pat"]))
        mut = data.draw(mut_st(d["pat"], exact_weight=8))
        text, _args = build_text(d["pat"], insts, mut)
        if d["st"] == "step" or not data.draw(st.integers(0, 3)):
            stype = data.draw(st.sampled_from(LOOK_TYPES))
        else:
            stype = d["st"]
        self.emit({"op": "look", "st": stype, "text": text})

    @rule(data=st.data(), stype=st.sampled_from(LOOK_TYPES))
    def lookup_fresh(self, data, stype):
        kind = data.draw(st.sampled_from(KINDS))
        pat = data.draw(pattern_st(kind, sorted(CONVERTERS), lits=LIT_SMALL, max_fields=2))
        text, _args = build_text(pat, data.draw(insts_st(pat)))
        self.emit({"op": "look", "st": stype, "text": text})

    def teardown(self):
        if self.ops and self.recorder is not None:
            self.recorder.record({"kind": "history", "ops": self.ops}, sub=self.subcheck)


def explore(rec):
    k = 1 if rec.tier == "quick" else 20
    rec.enum("re-register", reregister_cases())
    rec.enum("converter refuses a value its pattern matched", converr_cases())
    rec.hyp("patterns", pattern_case_st(), 6000 * k)
    rec.machine("histories", C11Machine, 1000 * k, steps=30)
    rec.hyp("step-modules", modules_case_st(), 400 * k)


def required_labels(tier):
    return (["kind:" + k for k in ALL_KINDS] + ["hist-kind:" + k for k in KINDS] + ["modules-kind:" + k for k in KINDS]
            + ["text:exact", "text:case", "text:prefix", "text:suffix", "text:lit",
               "field:any", "field:d", "field:w", "field:f", "field:custom", "field:card+", "field:card?", "field:card*",
               "field:re-named", "field:re-unnamed", "field:re-optional", "field:anonymous", "field:quoted",
               "inst:optional-absent", "inst:optional-present", "inst:card-empty",
               "look:bound", "look:unbound", "look:other-step-type", "look:specific-over-generic",
               "look:earlier-over-later", "look:generic-hit", "look:earlier-match-still-held", "reg:type-converter-replaced",
               "reg:added", "reg:ignored", "reg:ambiguous", "hist:nontrivial", "hist:large-library",
               "modules:default-after-switch", "modules:env-default", "modules:legacy-step_matcher-alias", "modules:sibling-import",
               "modules:cwd-1", "modules:cwd-2", "modules:cwd-3", "converr:first-candidate-refuses:another-would-match",
               "converr:KeyError", "converr:ValueError", "converr:Custom", "modules:own-matcher-class-as-default"])


KNOWN_PREDICATES = {}


RULE = RULE + " " + ('Step modules may import an earlier sibling module (its definitions are re-registrations of the very same function and pattern) and are loaded from foreign working directories; earlier lookup results are kept and must not change when later lookups (also of the same definition) are made.')
RULE = RULE + " " + ('A complete table of conversion refusals: a custom type whose converter raises (six exception classes) for a value its pattern matched, next to a catch-all definition in every order / step-type placement, with and without a later literal definition of the refused text: the step stays bound to the first matching definition (as a reported error), never falls through or becomes undefined, nothing escapes lookup or registration.')
RULE = RULE + " " + ('Step modules: half of the environments with an own default register their own matcher class (subclass of a built-in one, under its own name) and make it the default: it stays the default for every later module.')
