# -*- coding: utf-8 -*-
"""Check driver: tiers, sharding over worker processes, collect-then-shrink,
known findings, regression replays, evidence files.

Exit codes: 0 property held on everything explored (KNOWN-FINDING lines allowed),
            1 violation (line "VIOLATION property=<id> replay=<path>"),
            2 harness error / inconclusive (never a violation).
"""
from __future__ import annotations

import importlib
import json
import multiprocessing
import os
import sys
import time
import traceback
from collections import Counter

from .core import CaseResult, HarnessError, Violation, abbreviate, canon, case_hash

ROOT = os.path.dirname(os.path.dirname(os.path.abspath(__file__)))
EVIDENCE_DIR = os.path.join(ROOT, "evidence")
REGRESS_DIR = os.path.join(ROOT, "replays", "regress")
OUT_DIR = os.path.join(ROOT, "replays", "out")
FINDINGS_FILE = os.path.join(ROOT, "known_findings.json")

DEFAULT_SHARDS = int(os.environ.get("VERIF_SHARDS", "16"))
MAX_SAMPLES = 6


def load_module(prop_id):
    return importlib.import_module("vf.props.%s" % prop_id.lower())


# ---------------------------------------------------------------------------
# known findings
# ---------------------------------------------------------------------------
class Findings(object):
    def __init__(self, prop_id, mod):
        self.entries = []
        self.fixed = []
        if os.path.exists(FINDINGS_FILE):
            with open(FINDINGS_FILE) as f:
                data = json.load(f)
            self.entries = [e for e in data.get("findings", [])
                            if e.get("property") == prop_id and e.get("state", "open") == "open"]
            self.fixed = [line for line in data.get("fixed", [])
                          if ("property=%s " % prop_id) in line]
        self.predicates = getattr(mod, "KNOWN_PREDICATES", {})
        for e in self.entries:
            if e["predicate"] not in self.predicates:
                raise HarnessError("known finding %s names unknown predicate %s"
                                   % (e["id"], e["predicate"]))

    def match(self, clause, case, detail="", info=None):
        """Return the id of the open finding that explains this violation."""
        for e in self.entries:
            clauses = e.get("clauses") or [e["clause"]]
            if clause not in clauses:
                continue
            if self.predicates[e["predicate"]](case, detail, info or {}):
                return e["id"]
        return None


def behave_origin(tb):
    """If the innermost frame of a traceback lies in behave's own source (BEHAVE_SRC/behave),
    return "function@file"; else None."""
    import vf
    root = os.path.join(os.path.realpath(vf.BEHAVE_SRC), "behave") + os.sep
    frames = traceback.extract_tb(tb)
    if not frames:
        return None
    last = frames[-1]
    filename = os.path.realpath(last.filename)
    if filename.startswith(root):
        return "%s@%s" % (last.name, os.path.relpath(filename, root))
    return None


def safe_check(mod, case):
    """Run mod.check(case).  An exception whose innermost frame is inside behave's own code
    (behave failed internally on an input the check considers valid) is reported as a
    violation of "<ID>.behave-internal-error"; any other exception is a harness error
    (returned as dict)."""
    try:
        return mod.check(case)
    except Exception as e:
        origin = behave_origin(e.__traceback__)
        if origin and not isinstance(e, HarnessError):
            res = CaseResult()
            res.fail("%s.behave-internal-error" % mod.ID,
                     "%s: %s raised inside behave (%s)" % (type(e).__name__, str(e)[:300], origin),
                     origin=origin, exc=type(e).__name__)
            return res
        return {"case": abbreviate(case, 3000), "trace": traceback.format_exc()}


def _big_of(case):
    """Name of the blown-up dimension of a generated program (gen.inflate), if any."""
    if isinstance(case, dict):
        prog = case.get("program") if isinstance(case.get("program"), dict) else case
        big = prog.get("big")
        if isinstance(big, str):
            return big
    return None


# ---------------------------------------------------------------------------
# per-process recorder
# ---------------------------------------------------------------------------
class Recorder(object):
    def __init__(self, mod, tier, shard, nshards, seed):
        self.mod = mod
        self.tier = tier
        self.shard = shard
        self.nshards = nshards
        self.seed = seed
        self.findings = Findings(mod.ID, mod)
        self.evaluations = 0
        self.cases = 0
        self.nontrivial = set()
        self.labels = Counter()
        self.samples = []
        self.buckets = {}           # (clause, known_id) -> [size, case, detail, count]
        self.harness_errors = []
        self.enumerated = {}
        self.excluded = Counter()
        self.subchecks = Counter()
        self.subseconds = Counter()     # CPU seconds spent in check() per sub-check (this shard)
        self._sample_counts = {}

    # -- recording --------------------------------------------------------
    def record(self, case, sub="main"):
        t_start = time.time()
        res = safe_check(self.mod, case)
        self.subseconds[sub] += time.time() - t_start
        if isinstance(res, dict):       # harness problem, not a property violation
            if len(self.harness_errors) < 3:
                self.harness_errors.append(res)
            return None
        self.note(case, res, sub)
        return res

    def note(self, case, res, sub="main"):
        self.cases += 1
        self.evaluations += res.evals
        self.subchecks[sub] += 1
        for name in res.labels:
            self.labels[name] += 1
        big = _big_of(case)
        if big:
            self.labels["big:" + big] += 1
        if res.nontrivial:
            h = case_hash(case)
            if h not in self.nontrivial:
                self.nontrivial.add(h)
                seen = self._sample_counts.get(sub, 0)
                if seen < 2 and len(self.samples) < MAX_SAMPLES:
                    self._sample_counts[sub] = seen + 1
                    self.samples.append({"subcheck": sub, "case": abbreviate(case)})
        for v in res.violations:
            known = self.findings.match(v.clause, case, v.detail, v.info)
            key = (v.clause, known)
            size = len(canon(case))
            cur = self.buckets.get(key)
            if cur is None:
                self.buckets[key] = [size, case, v.detail, 1]
            else:
                cur[3] += 1
                if size < cur[0]:
                    cur[0], cur[1], cur[2] = size, case, v.detail

    # -- generation helpers -------------------------------------------------
    def mine(self, index):
        return index % self.nshards == self.shard

    def enum(self, name, iterable, exhaustive=True):
        """Run every item of a deterministic enumeration (sharded by index)."""
        count = 0
        total = 0
        for index, case in enumerate(iterable):
            total += 1
            if self.mine(index):
                self.record(case, sub=name)
                count += 1
        self.enumerated[name] = {"size": total, "exhaustive": bool(exhaustive)}
        return count

    def derive_seed(self, name):
        import zlib
        return (self.seed * 1000003 + self.shard * 7919 + zlib.crc32(name.encode())) % (2 ** 31)

    def hyp(self, name, strategy, n, fn=None):
        """Draw about n cases (over all shards) from a Hypothesis strategy."""
        from hypothesis import HealthCheck, Phase, given, seed, settings
        per = max(1, -(-int(n) // self.nshards))
        record = fn or (lambda case: self.record(case, sub=name))

        @seed(self.derive_seed(name))
        @settings(max_examples=per, database=None, deadline=None, derandomize=False,
                  phases=[Phase.generate], suppress_health_check=list(HealthCheck),
                  report_multiple_bugs=False)
        @given(strategy)
        def run(case):
            record(case)
        run()

    def machine(self, name, machine_cls, n, steps=30):
        """Run a Hypothesis RuleBasedStateMachine about n times (over all shards).
        The machine reports its history through `machine_cls.recorder`."""
        from hypothesis import HealthCheck, Phase, seed, settings
        from hypothesis.stateful import run_state_machine_as_test
        per = max(1, -(-int(n) // self.nshards))
        machine_cls.recorder = self
        machine_cls.subcheck = name
        cfg = settings(max_examples=per, stateful_step_count=steps, database=None,
                       deadline=None, derandomize=False, phases=[Phase.generate],
                       suppress_health_check=list(HealthCheck), report_multiple_bugs=False)
        run_state_machine_as_test(seed(self.derive_seed(name))(machine_cls), settings=cfg)

    def result(self):
        return {
            "shard": self.shard,
            "evaluations": self.evaluations,
            "cases": self.cases,
            "nontrivial": sorted(self.nontrivial),
            "labels": dict(self.labels),
            "samples": self.samples,
            "buckets": [[k[0], k[1]] + v for k, v in self.buckets.items()],
            "harness_errors": self.harness_errors,
            "enumerated": self.enumerated,
            "excluded": dict(self.excluded),
            "subchecks": dict(self.subchecks),
            "subseconds": dict(self.subseconds),
        }


def _worker(args):
    prop_id, tier, shard, nshards, seed = args
    try:
        mod = load_module(prop_id)
        rec = Recorder(mod, tier, shard, nshards, seed)
        mod.explore(rec)
        return rec.result()
    except BaseException:
        return {"shard": shard, "fatal": traceback.format_exc()}


# ---------------------------------------------------------------------------
# shrinking (own structural ddmin over the JSON case)
# ---------------------------------------------------------------------------
def _paths(obj, prefix=()):
    yield prefix, obj
    if isinstance(obj, dict):
        for k in sorted(obj):
            for x in _paths(obj[k], prefix + (k,)):
                yield x
    elif isinstance(obj, list):
        for i, v in enumerate(obj):
            for x in _paths(v, prefix + (i,)):
                yield x


def _replace(obj, path, fn):
    if not path:
        return fn(obj)
    head, rest = path[0], path[1:]
    if isinstance(obj, dict):
        new = dict(obj)
        new[head] = _replace(obj[head], rest, fn)
        return new
    new = list(obj)
    new[head] = _replace(obj[head], rest, fn)
    return new


def _candidates(case, simplify):
    """Yield structurally smaller variants of case (largest deletions first)."""
    nodes = list(_paths(case))
    # 1. delete list elements (whole chunks first)
    lists = [(p, v) for p, v in nodes if isinstance(v, list) and v]
    lists.sort(key=lambda pv: -len(canon(pv[1])))
    for path, value in lists:
        n = len(value)
        if n > 3:
            half = n // 2
            yield _replace(case, path, lambda v, h=half: v[:h])
            yield _replace(case, path, lambda v, h=half: v[h:])
        for i in range(n):
            yield _replace(case, path, lambda v, i=i: v[:i] + v[i + 1:])
    # 2. simplify scalars
    for path, value in nodes:
        key = path[-1] if path else None
        if isinstance(value, bool):
            if value:
                yield _replace(case, path, lambda v: False)
        elif isinstance(value, str):
            if isinstance(key, str) and key in simplify:
                target = simplify[key]
                if target == "nullable":
                    yield _replace(case, path, lambda v: None)
                    continue
                if target == "int":
                    continue
                if callable(target):
                    target = target(value)
                if target is not None and value != target:
                    yield _replace(case, path, lambda v, t=target: t)
        elif isinstance(value, int):
            if value > 0 and isinstance(key, str) and key in simplify and simplify[key] == "int":
                yield _replace(case, path, lambda v: 0)
                yield _replace(case, path, lambda v: v - 1)
        elif isinstance(value, dict):
            if isinstance(key, str) and simplify.get(key) == "nullable":
                yield _replace(case, path, lambda v: None)
        elif isinstance(value, list):
            if isinstance(key, str) and simplify.get(key) == "nullable":
                yield _replace(case, path, lambda v: None)


def shrink(mod, case, clause, findings, budget_s=25.0, max_evals=1500):
    """Greedy structural minimisation keeping a violation of `clause` that is not a
    known finding.  Returns (case, detail)."""
    simplify = getattr(mod, "SIMPLIFY", {})
    valid = getattr(mod, "valid_case", lambda c: True)
    start = time.time()
    evals = 0
    best = case
    best_detail = ""

    def still_fails(cand):
        try:
            if not valid(cand):
                return None
            res = safe_check(mod, cand)
            if isinstance(res, dict):
                return None
        except Exception:
            return None
        for v in res.violations:
            if v.clause == clause and findings.match(v.clause, cand, v.detail, v.info) is None:
                return v.detail
        return None

    detail = still_fails(best)
    if detail is None:
        return case, "(not reproducible on re-run: flaky harness?)"
    best_detail = detail
    improved = True
    while improved and time.time() - start < budget_s and evals < max_evals:
        improved = False
        for cand in _candidates(best, simplify):
            if time.time() - start > budget_s or evals >= max_evals:
                break
            if len(canon(cand)) >= len(canon(best)) and canon(cand) >= canon(best):
                continue
            evals += 1
            d = still_fails(cand)
            if d is not None:
                best, best_detail = cand, d
                improved = True
                break
    return best, best_detail


# ---------------------------------------------------------------------------
# evidence
# ---------------------------------------------------------------------------
def validate_evidence(ev):
    req = ["property_id", "tier", "seed", "level", "coverage", "wall_s"]
    for k in req:
        if k not in ev:
            raise HarnessError("evidence lacks %s" % k)
    cov = ev["coverage"]
    if ev["level"] in ("exploration", "fault_enumeration"):
        if not (isinstance(cov.get("evaluations"), int) and cov["evaluations"] >= 1):
            raise HarnessError("evidence: evaluations < 1")
        if not (isinstance(cov.get("distinct_nontrivial"), int) and cov["distinct_nontrivial"] >= 2):
            raise HarnessError("evidence: distinct_nontrivial < 2")
        if not isinstance(cov.get("rule"), str):
            raise HarnessError("evidence: rule missing")
        if not (isinstance(cov.get("samples"), list) and cov["samples"]):
            raise HarnessError("evidence: no samples")


def write_evidence(prop_id, ev):
    os.makedirs(EVIDENCE_DIR, exist_ok=True)
    path = os.path.join(EVIDENCE_DIR, "%s.json" % prop_id)
    tmp = path + ".tmp"
    with open(tmp, "w") as f:
        json.dump(ev, f, indent=1, sort_keys=True, default=str)
        f.write("\n")
    os.replace(tmp, path)
    return path


# ---------------------------------------------------------------------------
# replay
# ---------------------------------------------------------------------------
def load_replay(path):
    with open(path) as f:
        data = json.load(f)
    if "case" not in data:
        raise HarnessError("replay file %s has no 'case'" % path)
    return data


def run_replay_file(mod, findings, path):
    """Returns list of (clause, detail, known_id)."""
    data = load_replay(path)
    res = safe_check(mod, data["case"])
    if isinstance(res, dict):
        raise HarnessError("replay %s: %s" % (path, res["trace"]))
    out = []
    for v in res.violations:
        out.append((v.clause, v.detail, findings.match(v.clause, data["case"], v.detail, v.info)))
    return data, out


def write_replay(prop_id, clause, case, detail, seed, tier):
    os.makedirs(OUT_DIR, exist_ok=True)
    name = "%s-%s-%s.json" % (prop_id, clause.replace("/", "_"), case_hash(case)[:8])
    path = os.path.join(OUT_DIR, name)
    with open(path, "w") as f:
        json.dump({"property": prop_id, "clause": clause, "detail": detail,
                   "seed": seed, "tier": tier, "case": case}, f, indent=1, sort_keys=True,
                  default=str)
        f.write("\n")
    return path


# ---------------------------------------------------------------------------
# main entry
# ---------------------------------------------------------------------------
def run_check(prop_id, tier, nshards=None, replay=None):
    t0 = time.time()
    seed = int(os.environ.get("VERIF_SEED", "0") or 0)
    mod = load_module(prop_id)
    findings = Findings(prop_id, mod)
    nshards = nshards or DEFAULT_SHARDS
    violations = []     # (clause, path)
    known_lines = []

    # -- 0. explicit replay ---------------------------------------------------
    if replay:
        data, out = run_replay_file(mod, findings, replay)
        bad = [(c, d) for c, d, k in out if k is None]
        for c, d, k in out:
            tag = "known:%s" % k if k else "VIOLATED"
            print("replay %s: clause=%s [%s] %s" % (os.path.basename(replay), c, tag, d))
        if bad:
            print("VIOLATION property=%s replay=%s" % (prop_id, replay))
            return 1
        print("replay %s: property held" % replay)
        return 0

    # -- 1. regression replays (seconds) ------------------------------------
    regress_dir = os.path.join(REGRESS_DIR, prop_id)
    regress_count = 0
    witness_ids = {}
    for e in findings.entries:
        if e.get("witness"):
            witness_ids[os.path.normpath(os.path.join(ROOT, e["witness"]))] = e
    reproduced = set()
    if os.path.isdir(regress_dir):
        for name in sorted(os.listdir(regress_dir)):
            if not name.endswith(".json"):
                continue
            path = os.path.join(regress_dir, name)
            regress_count += 1
            try:
                data, out = run_replay_file(mod, findings, path)
            except Exception:
                print("HARNESS-ERROR replay %s\n%s" % (path, traceback.format_exc()))
                return 2
            for clause, detail, known in out:
                if known is None:
                    print("regression replay %s violates %s: %s" % (name, clause, detail))
                    violations.append((clause, path))
                else:
                    reproduced.add(known)
    for e in findings.entries:
        if e["id"] in reproduced:
            known_lines.append("KNOWN-FINDING: property=%s %s [%s, witness %s]"
                               % (prop_id, e["what"], e["id"], e.get("witness", "-")))

    # -- 2. generated search ---------------------------------------------------
    jobs = [(prop_id, tier, s, nshards, seed) for s in range(nshards)]
    timeout = float(os.environ.get("VERIF_WATCHDOG_S", "0") or 0) or \
        getattr(mod, "WATCHDOG_S", {}).get(tier, 1800 if tier == "quick" else 6 * 3600)
    if nshards == 1:
        results = [_worker(jobs[0])]
    else:
        ctx = multiprocessing.get_context("fork")
        pool = ctx.Pool(min(nshards, os.cpu_count() or 1), maxtasksperchild=1)
        try:
            async_res = pool.map_async(_worker, jobs, chunksize=1)
            try:
                results = async_res.get(timeout)
            except multiprocessing.TimeoutError:
                pool.terminate()
                print("INCONCLUSIVE property=%s watchdog of %ss fired" % (prop_id, timeout))
                return 2
        finally:
            pool.terminate()
            pool.join()

    fatal = [r for r in results if "fatal" in r]
    if fatal:
        print("HARNESS-ERROR property=%s shard %s\n%s" % (prop_id, fatal[0]["shard"], fatal[0]["fatal"]))
        return 2
    herr = [h for r in results for h in r["harness_errors"]]
    if herr:
        print("HARNESS-ERROR property=%s in check(); first case: %s\n%s"
              % (prop_id, json.dumps(herr[0]["case"])[:3000], herr[0]["trace"]))
        return 2

    evaluations = sum(r["evaluations"] for r in results)
    cases = sum(r["cases"] for r in results)
    nontrivial = set()
    labels = Counter()
    excluded = Counter()
    subchecks = Counter()
    subseconds = Counter()
    enumerated = {}
    samples = []
    buckets = {}
    for r in results:
        nontrivial.update(r["nontrivial"])
        labels.update(r["labels"])
        excluded.update(r["excluded"])
        subchecks.update(r["subchecks"])
        subseconds.update(r.get("subseconds") or {})
        for k, v in r["enumerated"].items():
            enumerated[k] = v
        for s in r["samples"]:
            if len(samples) < MAX_SAMPLES and [x["subcheck"] for x in samples].count(s["subcheck"]) < 2:
                samples.append(s)
        for clause, known, size, case, detail, count in r["buckets"]:
            key = (clause, known)
            cur = buckets.get(key)
            if cur is None:
                buckets[key] = [size, case, detail, count]
            else:
                cur[3] += count
                if size < cur[0]:
                    cur[0], cur[1], cur[2] = size, case, detail
    if not samples:
        for r in results:
            samples.extend(r["samples"][:1])

    # -- 3. classify buckets -----------------------------------------------
    known_counts = Counter()
    new_buckets = []
    for (clause, known), (size, case, detail, count) in sorted(buckets.items(), key=lambda kv: str(kv[0])):
        if known:
            known_counts[known] += count
        else:
            new_buckets.append((clause, case, detail, count))
    for e in findings.entries:
        if e["id"] in known_counts and e["id"] not in reproduced:
            known_lines.append("KNOWN-FINDING: property=%s %s [%s, %d generated cases]"
                               % (prop_id, e["what"], e["id"], known_counts[e["id"]]))
            reproduced.add(e["id"])

    shrink_budget = 0.0 if os.environ.get("VERIF_NO_SHRINK") else (25.0 if tier == "quick" else 120.0)
    for clause, case, detail, count in new_buckets:
        small, sdetail = shrink(mod, case, clause, findings, budget_s=shrink_budget)
        path = write_replay(prop_id, clause, small, sdetail or detail, seed, tier)
        print("violated clause %s (%d cases); minimal: %s" % (clause, count, (sdetail or detail)[:600]))
        violations.append((clause, path))

    # -- 4. vacuity guard -----------------------------------------------------
    starved = []
    required = getattr(mod, "required_labels", lambda t: [])(tier)
    for name in required:
        if labels.get(name, 0) == 0:
            starved.append(name)

    # -- 5. evidence -------------------------------------------------------
    ev = {
        "property_id": prop_id,
        "tier": tier,
        "seed": seed,
        "level": mod.LEVEL,
        "coverage": {
            "evaluations": int(evaluations),
            "cases": int(cases),
            "distinct_nontrivial": len(nontrivial),
            "rule": mod.RULE,
            "samples": samples,
            "classes": dict(sorted(labels.items())),
            "subchecks": dict(sorted(subchecks.items())),
            "subcheck_cpu_seconds": dict((k, round(v, 1)) for k, v in sorted(subseconds.items())),
            "enumerated": enumerated,
            "exhaustive": False,
            "excluded_by_known_finding": dict(excluded),
            "known_finding_hits": dict(known_counts),
            "regression_replays": regress_count,
            "shards": nshards,
        },
        "assumptions": list(getattr(mod, "ASSUMPTIONS", [])),
        "wall_s": round(time.time() - t0, 2),
        "violations": len(violations),
    }
    try:
        validate_evidence(ev)
    except HarnessError as e:
        write_evidence(prop_id, ev)
        print("HARNESS-ERROR property=%s %s" % (prop_id, e))
        return 2
    write_evidence(prop_id, ev)

    for line in known_lines:
        print(line)
    print("property=%s tier=%s seed=%d cases=%d evaluations=%d distinct_nontrivial=%d wall=%.1fs"
          % (prop_id, tier, seed, cases, evaluations, len(nontrivial), time.time() - t0))
    if violations:
        for clause, path in violations:
            print("VIOLATION property=%s replay=%s" % (prop_id, os.path.relpath(path, ROOT)))
        return 1
    if starved:
        print("HARNESS-ERROR property=%s starved classes (generator must be fixed): %s"
              % (prop_id, ", ".join(starved)))
        return 2
    return 0


def main(argv=None):
    import argparse
    ap = argparse.ArgumentParser(prog="check")
    ap.add_argument("property")
    ap.add_argument("tier", nargs="?", default=os.environ.get("VERIF_TIER", "quick"),
                    choices=["quick", "thorough"])
    ap.add_argument("--replay")
    ap.add_argument("--shards", type=int, default=None)
    args = ap.parse_args(argv)
    try:
        return run_check(args.property.upper(), args.tier, args.shards, args.replay)
    except HarnessError as e:
        print("HARNESS-ERROR %s" % e)
        return 2
    except Exception:
        print("HARNESS-ERROR\n%s" % traceback.format_exc())
        return 2


if __name__ == "__main__":
    sys.exit(main())
