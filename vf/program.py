# -*- coding: utf-8 -*-
"""Abstract programs (JSON trees), their rendering to Gherkin text and the facts
a faithful parser must report for them (DESIGN.md 2.1).

Feature  = {name, tags, bg?:[Step], items:[Scenario|Outline|Rule], desc?:[str], lang?:str,
            kw?:{kind: alias-index}}
Rule     = {k:"r", name, tags, bg?:[Step], items:[Scenario|Outline], desc?}
Scenario = {k:"s", name, tags, steps:[Step], desc?}
Outline  = {k:"o", name, tags, steps:[Step], ex:[{name, tags, cols:[str], rows:[[str]]}], desc?}
Step     = {kw:"Given"|"When"|"Then"|"And"|"But"|"*", uid, o:outcome|"<col>", cl?:None|"ok"|"raise",
            a?:bool (async), name?:explicit step text, text?:doc-string, q?:quote style 0/1,
            table?:[[cell]], emit?:{...}}
"""
from __future__ import annotations

OUTCOMES = ["pass", "fail", "raise", "pending", "undefined", "skip", "interrupt", "convert", "raise_timeout"]
# further outcomes used by individual checks: "abort" (step calls context.abort()),
# "convert_key" (type converter raises KeyError instead of ValueError)
PHRASE = {
    "pass": "passes", "fail": "fails", "raise": "raises", "pending": "pends",
    "undefined": "lacks", "skip": "skips", "interrupt": "interrupts",
    "convert": "misconverts 12x", "act": "acts", "nest": "nests", "abort": "aborts",
    "convert_key": "misconverts k12",
    # "typed": the step text is bound PER STEP TYPE: a passing @given definition, a failing @then
    # definition and no @when definition; typed steps share their uid (T0, T1), so that one text
    # occurs with several step types in one run
    "typed": "depends",
    # an exception that is no assertion error whatever its type (TimeoutError: also what asyncio raises)
    "raise_timeout": "times out",
    # a plain NotImplementedError (abstract helper, platform stub) is an exception like any other: error, never pending
    "raise_notimpl": "hits a stub",
    # a passing step whose parameter is converted to a NON-SCALAR value (a list): it passes iff its function
    # receives exactly the converted value
    "takes": "takes a,b,c",
}
TYPED_RESULT = {"given": "pass", "when": "undefined", "then": "fail"}
STEP_TYPES = ("given", "when", "then")
KW_TYPE = {"Given": "given", "When": "when", "Then": "then"}


def step_text(step, row=None):
    """Text after the keyword for a generated step (placeholders substituted with row)."""
    if step.get("name") is not None:
        text = step["name"]
    else:
        o = step["o"]
        phrase = o if o.startswith("<") else PHRASE[o]
        text = u"step %s %s" % (step["uid"], phrase)
        if step.get("tail") is not None:
            text += u" with " + step["tail"]
        if step.get("a"):
            # a == 2: the second documented decorator style, @async_run_until_complete(timeout=...)
            text = (u"asynct " if step["a"] == 2 else u"async ") + text
    if row:
        for col, val in row.items():
            text = text.replace(u"<%s>" % col, val)
    return text


def step_outcome(step, row=None, run_index=0):
    """Outcome of a step for a given examples row (dict col -> cell)."""
    o = _step_outcome(step, row, run_index)
    if o == "typed":
        return TYPED_RESULT[step["st"]]
    return o


def _step_outcome(step, row, run_index):
    o = step["o"]
    if o == "act":
        acts = step["acts"]
        return acts[run_index % len(acts)]
    if o.startswith("<"):
        if not row or o[1:-1] not in row:
            return "undefined"      # placeholder text outside an outline row: no such step definition
        phrase = row[o[1:-1]]
        for k, v in PHRASE.items():
            if v == phrase:
                return k
        raise ValueError("row cell %r is no outcome phrase" % phrase)
    return o


def assign_step_types(feature):
    """Set step["st"], the effective step type: Given/When/Then by keyword; And/But take the type of
    the preceding step -- an initial one that of the last (inherited) background step; '*' likewise,
    'given' without predecessor.  Same rules as render_feature() states as facts (checked by C04)."""
    def run(steps, inherit=None):
        last = None
        for s in steps or []:
            sk = s.get("kw", "Given")
            if last is None and sk in ("And", "But"):
                last = inherit
            if sk in KW_TYPE:
                last = stype = KW_TYPE[sk]
            elif sk in ("And", "But"):
                stype = last
            else:
                last = stype = last if last else "given"
            s["st"] = stype
        return last
    fb = run(feature["bg"]) if feature.get("bg") is not None else None
    for item in feature["items"]:
        if item["k"] == "r":
            bg_last = fb
            if item.get("bg") is not None:
                rb = run(item["bg"], fb)
                if item["bg"]:
                    bg_last = rb
            for sub in item["items"]:
                run(sub["steps"], bg_last)
        else:
            run(item["steps"], fb)


# ---------------------------------------------------------------------------
# walking
# ---------------------------------------------------------------------------
def iter_items(feature):
    """Yield (item, rule_or_None) for scenarios/outlines of a feature in document order."""
    for item in feature["items"]:
        if item["k"] == "r":
            for sub in item["items"]:
                yield sub, item
        else:
            yield item, None


def row_dicts(outline):
    """Yield (ex_index1, row_index1, example, rowdict) in block-then-row order."""
    for ei, ex in enumerate(outline["ex"]):
        for ri, cells in enumerate(ex["rows"]):
            yield ei + 1, ri + 1, ex, dict(zip(ex["cols"], cells))


def instances_of_item(item, rule):
    """Concrete scenarios of one scenario / outline item (rows expanded), in run order."""
    if item["k"] == "s":
        yield {"name": item["name"], "tags": list(item["tags"]), "item": item,
               "rule": rule, "outline": None, "rowdict": None, "ex": None}
        return
    for ei, ri, ex, rowdict in row_dicts(item):
        name = u"%s -- @%d.%d %s" % (render_template(item["name"], rowdict), ei, ri,
                                    render_template(ex["name"], rowdict))
        tags = []
        for t in item["tags"]:
            t2 = render_template(t, rowdict)
            if "<" in t2 and ">" in t2:
                continue
            tags.append(t2)
        tags.extend(ex["tags"])
        yield {"name": name, "tags": tags, "item": item, "rule": rule,
               "outline": item, "rowdict": rowdict, "ex": ex, "ei": ei, "ri": ri}


def scenario_instances(feature):
    """Yield concrete scenarios (rows expanded) of a feature in run order:
    dict(name, tags(own), item, rule, outline, ex, rowdict)"""
    for item, rule in iter_items(feature):
        for inst in instances_of_item(item, rule):
            yield inst


def render_template(text, rowdict):
    for col, val in rowdict.items():
        text = text.replace(u"<%s>" % col, val)
    return text


def all_steps_of(feature, inst):
    """Background steps (feature, then rule) + own steps of a scenario instance."""
    steps = []
    if feature.get("bg"):
        steps.extend(feature["bg"])
    rule = inst["rule"]
    if rule is not None and rule.get("bg"):
        steps.extend(rule["bg"])
    steps.extend(inst["item"]["steps"])
    return steps


def normalize(program):
    """Fill in names / uids deterministically where the generator left them out."""
    sc = 0
    st = 0
    for fi, feat in enumerate(program["features"]):
        feat.setdefault("name", u"F%d" % fi)
        feat.setdefault("tags", [])
        feat.setdefault("items", [])

        def fix_steps(steps):
            nonlocal st
            for s in steps or []:
                if "uid" not in s:
                    s["uid"] = (u"T%d" % (s.get("tk") or 0)) if s.get("o") == "typed" else u"u%d" % st
                st += 1
                s.setdefault("kw", "Given")
                s.setdefault("o", "pass")
        fix_steps(feat.get("bg"))
        ri = 0
        for item in feat["items"]:
            if item["k"] == "r":
                item.setdefault("name", u"R%d_%d" % (fi, ri))
                ri += 1
                item.setdefault("tags", [])
                fix_steps(item.get("bg"))
                subs = item["items"]
            else:
                subs = [item]
            for sub in subs:
                prefix = u"S" if sub["k"] == "s" else u"O"
                sub.setdefault("name", u"%s%d" % (prefix, sc))
                sc += 1
                sub.setdefault("tags", [])
                fix_steps(sub["steps"])
                if sub["k"] == "o":
                    for ex in sub["ex"]:
                        ex.setdefault("name", u"")
                        ex.setdefault("tags", [])
        assign_step_types(feat)
    program.setdefault("cfg", {})
    return program


# ---------------------------------------------------------------------------
# rendering
# ---------------------------------------------------------------------------
class _Out(object):
    def __init__(self, noise):
        self.lines = []
        self.noise = list(noise or [])
        self.ni = 0

    def _next(self):
        if not self.noise:
            return None
        n = self.noise[self.ni % len(self.noise)]
        self.ni += 1
        return n

    def emit(self, text, indent, raw=False, allow_pre=True):
        """Append a line; returns its 1-based line number."""
        n = self._next()
        if n is not None and not raw:
            indent = n % 7
            pre = (n // 7) % 5
            if allow_pre:
                if pre == 1:
                    self.lines.append(u"")
                elif pre == 2:
                    self.lines.append(u" " * (n % 5) + u"# a comment %d" % n)
                elif pre == 3:
                    self.lines.append(u"   ")
                    self.lines.append(u"#another: comment")
        self.lines.append(u" " * indent + text)
        return len(self.lines)


def _keyword(lang_kw, kind, feat_kw, default_index=None):
    aliases = lang_kw[kind]
    idx = (feat_kw or {}).get(kind)
    if idx is None:
        idx = default_index if default_index is not None else 0
    return aliases[idx % len(aliases)]


def _default_kw_index(lang_kw, kind):
    # prefer the conventional English keyword where it exists
    prefer = {"scenario": "Scenario", "feature": "Feature", "scenario_outline": "Scenario Outline",
              "examples": "Examples", "background": "Background", "rule": "Rule"}
    if kind in prefer and prefer[kind] in lang_kw[kind]:
        return lang_kw[kind].index(prefer[kind])
    return 0


def escape_cell(cell):
    return cell.replace(u"|", u"\\|")


def render_feature(feature, noise=None, language_header=False):
    """Render a feature tree; returns (text, facts).

    facts = {"feature": {...}, with nested expected model facts}:
      each entity: kind, line, keyword, name, tags:[(name,line)], description, steps
      each step: line, keyword, step_type, name, text, text_line, table(headings, rows, lines)
    """
    from behave import i18n
    lang = feature.get("lang") or "en"
    lang_kw = i18n.languages[lang]
    fkw = feature.get("kw") or {}
    out = _Out(noise if noise is not None else feature.get("noise"))

    def kw(kind):
        return _keyword(lang_kw, kind, fkw, _default_kw_index(lang_kw, kind))

    if language_header:
        out.lines.append(u"# language: %s" % lang)
    # "lead": blank / comment lines in front of the feature, so that every line number of the
    # document has three or four digits (a long licence header, a file with many scenarios above)
    for i in range(feature.get("lead") or 0):
        out.lines.append(u"" if i % 3 else u"# header line %d" % i)

    def emit_tags(tags, indent, taglines=None):
        """tags may be split over several lines; returns [(tag, line)]"""
        result = []
        if not tags:
            return result
        groups = [list(tags)]
        if taglines and len(tags) > 1:
            cut = taglines % len(tags)
            if cut:
                groups = [list(tags[:cut]), list(tags[cut:])]
        for gi, group in enumerate(groups):
            text = u" ".join(u"@" + t for t in group)
            if taglines and (taglines // 7) % 2 == 1:
                text += u"  # trailing @comment"
            ln = out.emit(text, indent, allow_pre=(gi == 0))
            for t in group:
                result.append((t, ln))
        return result

    def emit_desc(desc, indent):
        res = []
        for d in desc or []:
            out.emit(d, indent, allow_pre=False)
            res.append(d)
        return res

    def emit_steps(steps, indent, inherit=None):
        """inherit: step type an initial And/But takes over from the background."""
        facts = []
        last_type = None
        for s in steps:
            sk = s.get("kw", "Given")
            if last_type is None and sk in ("And", "But"):
                last_type = inherit
            if sk in KW_TYPE:
                stype = KW_TYPE[sk]
                aliases = [a for a in lang_kw[stype] if not a.startswith(u"*")]
                alias = aliases[(s.get("kwi") or 0) % len(aliases)]
                last_type = stype
            elif sk in ("And", "But"):
                kind = sk.lower()
                aliases = [a for a in lang_kw[kind] if not a.startswith(u"*")]
                alias = aliases[(s.get("kwi") or 0) % len(aliases)]
                stype = last_type
            else:   # "*"
                alias = u"* "
                # '*' without predecessor is read as a given-step (and counts as one).
                stype = last_type if last_type else "given"
                last_type = stype
            name = step_text(s)
            ln = out.emit(alias + name, indent)
            fact = {"line": ln, "keyword": alias.rstrip(), "step_type": stype, "name": name,
                    "text": None, "table": None, "uid": s.get("uid")}
            if s.get("text") is not None:
                q = u'"""' if not s.get("q") else u"'''"
                qn = out._next()
                qind = indent + 2 if qn is None else qn % 9
                # invisible blanks / a tab after the opening quotes are no part of the indentation
                out.lines.append(u" " * qind + q + (u"" if qn is None else (u"", u"  ", u"\t")[qn % 3]))
                fact["text_line"] = len(out.lines)
                for tl in s["text"].split(u"\n"):
                    out.lines.append((u" " * qind + tl) if tl else u"")
                out.lines.append(u" " * qind + q)
                fact["text"] = s["text"]
            elif s.get("table") is not None:
                tbl = s["table"]
                tlines = []
                for row in tbl:
                    tl = out.emit(u"| " + u" | ".join(escape_cell(c) for c in row) + u" |",
                                  indent + 2, allow_pre=True)
                    tlines.append(tl)
                fact["table"] = {"headings": list(tbl[0]), "rows": [list(r) for r in tbl[1:]],
                                 "lines": tlines}
            facts.append(fact)
        return facts, last_type

    facts = {}
    ftags = emit_tags(feature.get("tags") or [], 0, feature.get("tl"))
    fline = out.emit(u"%s: %s" % (kw("feature"), feature["name"]), 0)
    facts.update({"kind": "feature", "line": fline, "keyword": kw("feature"),
                  "name": feature["name"], "tags": ftags, "language": lang,
                  "description": emit_desc(feature.get("desc"), 2), "background": None,
                  "items": []})
    feat_bg_last_type = None
    if feature.get("bg") is not None:
        bl = out.emit(u"%s: %s" % (kw("background"), feature.get("bgname", u"")), 2)
        bdesc = emit_desc(feature.get("bgdesc"), 4)
        bsteps, feat_bg_last_type = emit_steps(feature["bg"], 4)
        facts["background"] = {"kind": "background", "line": bl, "keyword": kw("background"),
                               "name": feature.get("bgname", u""), "steps": bsteps,
                               "description": bdesc}

    def emit_scenario(item, indent, bg_last_type):
        tags = emit_tags(item.get("tags") or [], indent, item.get("tl"))
        if item["k"] == "s":
            keyword = kw("scenario")
        else:
            keyword = kw("scenario_outline")
        ln = out.emit(u"%s: %s" % (keyword, item["name"]), indent)
        desc = emit_desc(item.get("desc"), indent + 2)
        steps, _ = emit_steps(item["steps"], indent + 2, bg_last_type)
        fact = {"kind": "scenario" if item["k"] == "s" else "outline", "line": ln,
                "keyword": keyword, "name": item["name"], "tags": tags,
                "description": desc, "steps": steps}
        if item["k"] == "o":
            fact["examples"] = []
            for ex in item["ex"]:
                etags = emit_tags(ex.get("tags") or [], indent + 2, ex.get("tl"))
                ekw = kw("examples")
                el = out.emit(u"%s: %s" % (ekw, ex.get("name", u"")), indent + 2)
                if ex.get("notable"):
                    # an Examples section that has no table at all (tolerated by the parser: table is None)
                    fact["examples"].append({"kind": "examples", "line": el, "keyword": ekw,
                                             "name": ex.get("name", u""), "tags": etags, "headings": None,
                                             "heading_line": None, "rows": None, "row_lines": []})
                    continue
                hl = out.emit(u"| " + u" | ".join(escape_cell(c) for c in ex["cols"]) + u" |",
                              indent + 4, allow_pre=True)
                rlines = []
                for row in ex["rows"]:
                    rl = out.emit(u"| " + u" | ".join(escape_cell(c) for c in row) + u" |",
                                  indent + 4, allow_pre=True)
                    rlines.append(rl)
                fact["examples"].append({"kind": "examples", "line": el, "keyword": ekw,
                                         "name": ex.get("name", u""), "tags": etags,
                                         "headings": list(ex["cols"]), "heading_line": hl,
                                         "rows": [list(r) for r in ex["rows"]],
                                         "row_lines": rlines})
        return fact

    for item in feature["items"]:
        if item["k"] == "r":
            rtags = emit_tags(item.get("tags") or [], 2, item.get("tl"))
            rl = out.emit(u"%s: %s" % (kw("rule"), item["name"]), 2)
            rdesc = emit_desc(item.get("desc"), 4)
            rfact = {"kind": "rule", "line": rl, "keyword": kw("rule"), "name": item["name"],
                     "tags": rtags, "description": rdesc, "background": None, "items": []}
            bg_last = feat_bg_last_type
            if item.get("bg") is not None:
                bl = out.emit(u"%s: %s" % (kw("background"), item.get("bgname", u"")), 4)
                bdesc = emit_desc(item.get("bgdesc"), 6)
                bsteps, rb_last = emit_steps(item["bg"], 6, feat_bg_last_type)
                rfact["background"] = {"kind": "background", "line": bl,
                                       "keyword": kw("background"),
                                       "name": item.get("bgname", u""), "steps": bsteps,
                                       "description": bdesc}
                if item["bg"]:
                    bg_last = rb_last
            for sub in item["items"]:
                rfact["items"].append(emit_scenario(sub, 4, bg_last))
            facts["items"].append(rfact)
        else:
            facts["items"].append(emit_scenario(item, 2, feat_bg_last_type))

    text = u"\n".join(out.lines) + u"\n"
    return text, facts
