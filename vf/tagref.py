# -*- coding: utf-8 -*-
"""Own tag-expression semantics (never behave's classes): AST, evaluator, renderers.

AST (JSON):  ["tag", name] | ["glob", pattern] | ["not", x] | ["and", x, y, ...] | ["or", x, y, ...]
             | ["true"]   (empty expression: selects everything)
"""
from __future__ import annotations


def glob_match(pattern, text):
    """Case-sensitive shell-style match of the whole text: * ? [seq] [!seq]."""
    return _gm(pattern, 0, text, 0)


def _gm(p, pi, t, ti):
    while pi < len(p):
        c = p[pi]
        if c == "*":
            # collapse runs of stars
            while pi < len(p) and p[pi] == "*":
                pi += 1
            if pi == len(p):
                return True
            for k in range(ti, len(t) + 1):
                if _gm(p, pi, t, k):
                    return True
            return False
        if ti >= len(t):
            return False
        if c == "?":
            pi += 1
            ti += 1
            continue
        if c == "[":
            end = p.find("]", pi + 2) if pi + 1 < len(p) else -1
            j = pi + 1
            if j < len(p) and p[j] == "!":
                j += 1
            # a ']' directly after '[' or '[!' is a literal member
            end = p.find("]", j + 1) if j < len(p) else -1
            if end == -1:
                # no closing bracket: '[' is literal
                if t[ti] != "[":
                    return False
                pi += 1
                ti += 1
                continue
            neg = p[pi + 1] == "!"
            members = p[j:end]
            ok = _in_class(members, t[ti])
            if ok == neg:
                return False
            pi = end + 1
            ti += 1
            continue
        if t[ti] != c:
            return False
        pi += 1
        ti += 1
    return ti == len(t)


def _in_class(members, ch):
    i = 0
    while i < len(members):
        if i + 2 < len(members) and members[i + 1] == "-":
            if members[i] <= ch <= members[i + 2]:
                return True
            i += 3
        else:
            if members[i] == ch:
                return True
            i += 1
    return False


def evaluate(ast, tags):
    op = ast[0]
    if op == "true":
        return True
    if op == "tag":
        return ast[1] in tags
    if op == "glob":
        return any(glob_match(ast[1], t) for t in tags)
    if op == "not":
        return not evaluate(ast[1], tags)
    if op == "and":
        return all(evaluate(x, tags) for x in ast[1:])
    if op == "or":
        return any(evaluate(x, tags) for x in ast[1:])
    raise ValueError("bad tag AST %r" % (ast,))


def operands(ast, acc=None):
    if acc is None:
        acc = []
    if ast[0] in ("tag", "glob"):
        acc.append(ast)
    elif ast[0] != "true":
        for x in ast[1:]:
            operands(x, acc)
    return acc


def size(ast):
    if ast[0] in ("tag", "glob", "true"):
        return 1
    return 1 + sum(size(x) for x in ast[1:])


# ---------------------------------------------------------------------------
# rendering: v2 text
# ---------------------------------------------------------------------------
_PREC = {"or": 1, "and": 2, "not": 3, "tag": 4, "glob": 4, "true": 4}


def escape_operand(name):
    """Operand text as it has to be written in a v2 expression: backslash, parentheses and
    whitespace inside a tag name / pattern are written with a preceding backslash."""
    out = []
    for ch in name:
        if ch in u"\\()" or ch.isspace():
            out.append(u"\\")
        out.append(ch)
    return u"".join(out)


def needs_escape(name):
    return escape_operand(name) != name


def render_v2(ast, variant=0):
    """variant bits: 1 -> '@' prefixes, 2 -> redundant parentheses, 4 -> extra spaces,
    8 -> leading and trailing blanks, 16 -> every operand and every sub-expression parenthesised,
    32 -> the operands of the top-level operator parenthesised (not the whole text)."""
    if variant & 8:
        return u" " + render_v2(ast, variant & ~8) + u"  "
    if variant & 32:
        # every operand of the top-level operator is parenthesised, the text as a whole is not:
        # "(a and b) or (c)" starts with "(" and ends with ")" without being one group
        v = variant & ~32
        spc = u"  " if variant & 4 else u" "
        if ast[0] in ("and", "or"):
            return (spc + ast[0] + spc).join(u"(" + render_v2(y, v) + u")" for y in ast[1:])
        if ast[0] == "not":
            return u"not" + spc + u"(" + render_v2(ast[1], v) + u")"
        return render_v2(ast, v)
    if variant & 16:
        return _render_v2_full(ast, variant)
    at = u"@" if variant & 1 else u""
    redundant = bool(variant & 2)
    sp = u"  " if variant & 4 else u" "

    def r(x, parent_prec):
        op = x[0]
        if op == "true":
            return u""
        if op in ("tag", "glob"):
            text = at + escape_operand(x[1])
            if redundant and parent_prec == 0:
                return u"(" + sp.strip(" ")[:0] + text + u")"
            return text
        if op == "not":
            inner = r(x[1], _PREC["not"])
            if x[1][0] in ("and", "or") and not inner.startswith(u"("):
                inner = u"( " + inner + u" )"
            return u"not" + sp + inner
        parts = [r(y, _PREC[op]) for y in x[1:]]
        text = (sp + op + sp).join(parts)
        if _PREC[op] < parent_prec or (redundant and parent_prec > 0):
            return u"(" + (u" " if variant & 4 else u"") + text + (u" " if variant & 4 else u"") + u")"
        return text
    return r(ast, 0)


def _render_v2_full(ast, variant):
    at = u"@" if variant & 1 else u""
    sp = u"  " if variant & 4 else u" "
    pad = u" " if variant & 4 else u""

    def wrap(text):
        return u"(" + pad + text + pad + u")"

    def r(x):
        op = x[0]
        if op == "true":
            return u""
        if op in ("tag", "glob"):
            return wrap(at + escape_operand(x[1]))
        if op == "not":
            return wrap(u"not" + sp + r(x[1]))
        return wrap((sp + op + sp).join(r(y) for y in x[1:]))
    return r(ast)


def render_v2_terms(ast, variant=0):
    """List-of-terms form (a sequence of strings which behave ANDs together): the operands of a
    top-level 'and' become one term each, anything else is a single term, 'true' is no term."""
    if ast[0] == "true":
        return []
    if ast[0] == "and":
        return [render_v2(x, variant) for x in ast[1:]]
    return [render_v2(ast, variant)]


# ---------------------------------------------------------------------------
# rendering: v1 (CNF)    ast must be ["and", clause...] / clause / literal
# ---------------------------------------------------------------------------
def is_literal(ast):
    return ast[0] == "tag" or (ast[0] == "not" and ast[1][0] == "tag")


def as_cnf(ast):
    """Return list of clauses (each a list of literals) or None if not CNF shaped."""
    if ast[0] == "true":
        return []
    if is_literal(ast):
        return [[ast]]
    if ast[0] == "or" and all(is_literal(x) for x in ast[1:]):
        return [list(ast[1:])]
    if ast[0] == "and":
        clauses = []
        for x in ast[1:]:
            if is_literal(x):
                clauses.append([x])
            elif x[0] == "or" and all(is_literal(y) for y in x[1:]):
                clauses.append(list(x[1:]))
            else:
                return None
        return clauses
    return None


def render_v1(ast, variant=0):
    """Returns the list of --tags arguments. variant bits: 1 -> '@', 2 -> '~' instead of '-'"""
    clauses = as_cnf(ast)
    if clauses is None:
        raise ValueError("not CNF")
    at = u"@" if variant & 1 else u""
    neg = u"~" if variant & 2 else u"-"
    args = []
    for clause in clauses:
        lits = []
        for lit in clause:
            if lit[0] == "not":
                lits.append(neg + at + lit[1][1])
            else:
                lits.append(at + lit[1])
        args.append(u",".join(lits))
    return args
